"""Index-space inference (ISA): a small abstract interpreter that gives every list/array a
*domain* (which index space enumerates it) and every integer an *index space*, and records an
obligation wherever an index meets a container.

Types (tuples):
  ('idx', X)            an index into space X
  ('seq', X, elem)      a sequence enumerated by X (X None = unknown) with element type elem
  ('map', K, V)         dict
  ('mat', X, Y)         2-D matrix with row space X, column space Y
  ('atoms', X)          an Atoms value whose atoms are space X
  ('tup', [t...])       fixed tuple
  ('len', X)            the size of space X
  ('set', elem)
  VEC, EL, NUM, ROT, BOOL, None (= unknown; never alarms)

Spaces are strings; 'prod(A,B)' is the image-major product (outer A, inner B); 'filt(..)#n' a
filtered sub-space created by conditional appends; spaces are merged with union-find only where the
code itself establishes equality (appends in the same conditional block share one filtered space)."""
import ast
import itertools

from .core import AnalysisError

VEC = ("vec",)
EL = ("el",)
NUM = ("num",)
ROT = ("rot",)
BOOL = ("bool",)


def Idx(s):
    return ("idx", s)


def Seq(d, e):
    return ("seq", d, e)


def is_(t, tag):
    return isinstance(t, tuple) and len(t) > 0 and t[0] == tag


class World:
    """Shared state of one inference run."""

    def __init__(self, repo):
        self.repo = repo
        self.parent = {}
        self.cnt = itertools.count()
        self.obl = []      # (fn qualname, node, kind, ok, detail)
        self.join = False
        self.join_key = None
        self.depth = 0
        self.funcs = {}
        for (m, q), fn in repo.fns.items():
            if "." not in q:
                self.funcs.setdefault(q, fn)
        self.filt = {}
        # callee name -> function(caller Fn, args, kw) -> type; overrides inference of the body (signature seeds)
        self.seeds = {"uc_neighbor_offsets": lambda f, a, k: Seq("IMG", VEC)}

    def find(self, s):
        while self.parent.get(s, s) != s:
            s = self.parent[s]
        return s

    def union(self, a, b):
        a, b = self.find(a), self.find(b)
        if a != b:
            self.parent[b] = a

    def fresh(self, tag):
        return "%s#%d" % (tag, next(self.cnt))

    def same(self, a, b):
        return a is not None and b is not None and self.find(a) == self.find(b)

    def ob(self, fn, node, what, ok, detail):
        self.obl.append((fn, node, what, bool(ok), detail))

    def unify(self, a, b):
        if a == b:
            return a
        if a is None or b is None:
            return a if b is None else b
        if is_(a, "seq") and is_(b, "seq"):
            d = a[1] if (a[1] and b[1] and self.same(a[1], b[1])) else None
            if a[1] and b[1] and not self.same(a[1], b[1]) and str(self.find(a[1])).startswith("filt") \
                    and str(self.find(b[1])).startswith("filt") and self.join:
                self.union(a[1], b[1])
                d = a[1]
            if a[1] in (None, "?"):
                d = b[1]
            if b[1] in (None, "?"):
                d = a[1]
            if d is None and a[1] and b[1] and a[1] != "?" and b[1] != "?" and self.join and self.join_key is not None:
                # phi space: every variable whose domain is (X on one branch, Y on the other) of the SAME
                # conditional gets the SAME merged space, so parallel lists stay parallel after the join
                x, y = sorted([str(self.find(a[1])), str(self.find(b[1]))])
                d = "phi(%s:%s|%s)" % (self.join_key, x, y)
            return Seq(d, self.unify(a[2], b[2]))
        if is_(a, "map") and is_(b, "map"):
            return ("map", self.unify(a[1], b[1]), self.unify(a[2], b[2]))
        if is_(a, "idx") and is_(b, "idx"):
            if self.same(a[1], b[1]):
                return a
            if self.join and self.join_key is not None:
                x, y = sorted([str(self.find(a[1])), str(self.find(b[1]))])
                return Idx("phi(%s:%s|%s)" % (self.join_key, x, y))
            return None
        if is_(a, "tup") and is_(b, "tup") and len(a[1]) == len(b[1]):
            return ("tup", [self.unify(x, y) for x, y in zip(a[1], b[1])])
        if is_(a, "atoms") and is_(b, "atoms"):
            return a if self.same(a[1], b[1]) else None
        if is_(a, "set") and is_(b, "set"):
            return ("set", self.unify(a[1], b[1]))
        return None


class Fn:
    def __init__(self, W, fnobj, node, env=None, qual=None):
        self.W = W
        self.fnobj = fnobj      # facts.Fn (for file/line reporting) -- the *outermost* enclosing function
        self.node = node
        self.qual = qual or (fnobj.qualname if fnobj is not None else "?")
        self.env = dict(env or {})
        self.ret = None
        self.rets = []
        self.ctx = []
        self.init_depth = {}

    # ---- helpers ---------------------------------------------------------------------------------
    def ob(self, node, what, ok, detail):
        self.W.ob(self.qual, node, what, ok, detail)

    def bind(self, t, ty):
        if isinstance(t, ast.Name):
            self.env[t.id] = ty
        elif isinstance(t, (ast.Tuple, ast.List)):
            comps = ty[1] if is_(ty, "tup") else [None] * len(t.elts)
            if len(comps) != len(t.elts):
                comps = [None] * len(t.elts)
            for x, c in zip(t.elts, comps):
                self.bind(x, c)

    def elem_of_iter(self, ty):
        if is_(ty, "seq"):
            return ty[2], ty[1]
        if is_(ty, "map"):
            return ty[1], None
        if is_(ty, "set"):
            return ty[1], None
        return None, None

    def append_dom(self, var=None):
        W = self.W
        base = self.init_depth.get(var, 0)
        ctx = self.ctx[base:]
        fors = [c for c in ctx if c[0] == "for"]
        if len(fors) != 1:
            return W.fresh("prod")
        f = fors[-1]
        idx = ctx.index(f)
        ifs = [c for c in ctx[idx + 1:] if c[0] == "if"]
        if not ifs:
            return f[1]
        key = ("filt", id(ifs[-1][1]), f[1], self.qual)
        if key not in W.filt:
            W.filt[key] = W.fresh("filt(%s)" % f[1])
        return W.filt[key]

    # ---- expressions -----------------------------------------------------------------------------
    def ev(self, e):
        if e is None:
            return None
        m = getattr(self, "ev_" + type(e).__name__, None)
        return m(e) if m else None

    def ev_Constant(self, e):
        if isinstance(e.value, bool):
            return BOOL
        if isinstance(e.value, int):
            return ("int", e.value)
        if isinstance(e.value, float):
            return NUM
        return None

    def ev_Name(self, e):
        return self.env.get(e.id)

    def ev_Starred(self, e):
        return self.ev(e.value)

    def ev_Tuple(self, e):
        out = []
        for x in e.elts:
            if isinstance(x, ast.Starred):
                t = self.ev(x.value)
                out += [NUM, NUM, NUM] if t == VEC else [None]
            else:
                out.append(self.ev(x))
        return ("tup", out)

    def ev_Dict(self, e):
        if not e.keys:
            return ("map", None, None)
        ks = [self.ev(k) for k in e.keys]
        vs = [self.ev(v) for v in e.values]
        k, v = ks[0], vs[0]
        for x in ks[1:]:
            k = self.W.unify(k, x)
        for x in vs[1:]:
            v = self.W.unify(v, x)
        return ("map", k, v)

    def ev_List(self, e):
        ts = [self.ev(x) for x in e.elts]
        if not ts:
            return Seq(None, None)
        return Seq(None, ts[0]) if len(set(map(repr, ts))) <= 1 else Seq(None, None)

    def ev_Set(self, e):
        ts = [self.ev(x) for x in e.elts]
        return ("set", ts[0] if ts and len(set(map(repr, ts))) <= 1 else None)

    def ev_Lambda(self, e):
        return ("lambda", e, self)

    def ev_IfExp(self, e):
        self.ev(e.test)
        return self.W.unify(self.ev(e.body), self.ev(e.orelse))

    def ev_BoolOp(self, e):
        ts = [self.ev(v) for v in e.values]
        r = ts[0]
        for t in ts[1:]:
            r = self.W.unify(r, t)
        return r

    def ev_UnaryOp(self, e):
        t = self.ev(e.operand)
        if isinstance(e.op, ast.Not):
            return BOOL
        return t

    def ev_Compare(self, e):
        W = self.W
        l = self.ev(e.left)
        first = l
        for op, c in zip(e.ops, e.comparators):
            r = self.ev(c)
            if is_(l, "idx") and is_(r, "idx") and isinstance(op, (ast.Eq, ast.NotEq, ast.Lt, ast.LtE, ast.Gt, ast.GtE)):
                self.ob(e, "compare-idx", W.same(l[1], r[1]), "%s vs %s" % (self.show(l), self.show(r)))
            if is_(l, "idx") and is_(r, "len") and isinstance(op, ast.Lt) and l[1] is not None:
                # idx < len(S) on indices of an image-major sequence = the first (home) block, written as a filter
                sp = W.find(l[1])
                if sp.startswith("filt(prod(") or sp.startswith("prod("):
                    inner = sp[sp.index("prod(") + 5:].split(")")[0].split(",")[-1]
                    self.ob(e, "home-block", inner == W.find(r[1]), "filter idx < %s on indices over %s: the home-cell block has the inner atom count %s" % (self.show(r), sp, inner))
            if isinstance(op, (ast.In, ast.NotIn)) and is_(l, "idx"):
                el = None
                if is_(r, "seq"):
                    el = r[2]
                elif is_(r, "set"):
                    el = r[1]
                elif is_(r, "map"):
                    el = r[1]
                if is_(el, "idx"):
                    self.ob(e, "membership", W.same(l[1], el[1]), "%s in collection of %s" % (self.show(l), self.show(el)))
            l = r
        if is_(first, "seq") and len(e.ops) == 1 and isinstance(e.ops[0], (ast.Eq, ast.Lt, ast.LtE, ast.Gt, ast.GtE, ast.NotEq)):
            return Seq(first[1], BOOL)
        if is_(l, "seq") and len(e.ops) == 1 and isinstance(e.ops[0], (ast.Eq, ast.Lt, ast.LtE, ast.Gt, ast.GtE, ast.NotEq)):
            return Seq(l[1], BOOL)      # scalar <op> array: the mask lives in the array's space whichever side it is written on
        return BOOL

    def show(self, t):
        if is_(t, "idx"):
            return "Idx[%s]" % self.W.find(t[1])
        if is_(t, "seq"):
            return "Seq[%s]" % (self.W.find(t[1]) if t[1] else "?")
        if is_(t, "len"):
            return "Len[%s]" % self.W.find(t[1])
        return str(t)

    def ev_Attribute(self, e):
        v = self.ev(e.value)
        if is_(v, "atoms"):
            X = v[1]
            return {"positions": Seq(X, VEC), "elements": Seq(X, EL), "symbols": Seq(X, EL), "atom_types": Seq(X, None),
                    "charges": Seq(X, NUM), "groups": Seq(X, NUM), "extra_atom_fields": Seq(X, None), "cell": ("cell",)}.get(e.attr)
        if is_(v, "mat") and e.attr == "shape":
            return ("shape", v)
        return None

    def ev_BinOp(self, e):
        W = self.W
        l, r = self.ev(e.left), self.ev(e.right)
        if isinstance(e.op, ast.Mod) and is_(l, "idx") and is_(r, "len"):
            sp = W.find(l[1])
            ok = sp.startswith("prod(") and sp.endswith("," + W.find(r[1]) + ")")
            self.ob(e, "fold idx%len", ok, "%s %% %s: folding an image-major index needs the inner (atom) count" % (self.show(l), self.show(r)))
            return Idx(r[1]) if ok else None
        if isinstance(e.op, ast.BitAnd) and is_(l, "seq") and is_(r, "seq"):
            return l
        if isinstance(e.op, (ast.Sub, ast.BitAnd, ast.BitOr, ast.BitXor)) and is_(l, "set") and is_(r, "set"):
            if is_(l[1], "idx") and is_(r[1], "idx"):
                self.ob(e, "set-op", W.same(l[1][1], r[1][1]), "%s %s %s" % (self.show(l[1]), type(e.op).__name__, self.show(r[1])))
            return ("set", l[1] or r[1])
        if isinstance(e.op, ast.Add):
            if is_(l, "seq") and isinstance(e.right, ast.List):
                return Seq(None, W.unify(l[2], r[2]) if is_(r, "seq") else l[2])
            if is_(l, "seq") and l[2] == VEC:
                return l
            if is_(r, "seq") and r[2] == VEC and not is_(l, "seq"):
                return r
            if is_(l, "idx") or is_(r, "idx"):
                return None
        if isinstance(e.op, ast.Mult) and is_(l, "seq") and is_(r, "len"):
            return Seq("prod(%s,%s)" % (W.find(r[1]), W.find(l[1])), l[2])
        if isinstance(e.op, ast.Mult) and is_(r, "seq") and is_(l, "len"):
            return Seq("prod(%s,%s)" % (W.find(l[1]), W.find(r[1])), r[2])
        if isinstance(e.op, (ast.Sub, ast.Div, ast.Pow, ast.Mult, ast.Mod)):
            if l == VEC or r == VEC:
                return VEC
            if is_(l, "seq"):
                return l
        return NUM if (l == NUM or r == NUM) else None

    def ev_ListComp(self, e):
        return self.comp(e, e.elt)

    def ev_GeneratorExp(self, e):
        return self.comp(e, e.elt)

    def ev_SetComp(self, e):
        t = self.comp(e, e.elt)
        return ("set", t[2]) if is_(t, "seq") else ("set", None)

    def comp(self, e, elt):
        W = self.W
        saved = dict(self.env)
        doms = []
        conds = False
        for g in e.generators:
            it = self.ev(g.iter)
            el, d = self.elem_of_iter(it)
            self.bind(g.target, el)
            doms.append(d)
            conds |= bool(g.ifs)
            for c in g.ifs:
                self.ev(c)
        t = self.ev(elt)
        self.env = saved
        if len(doms) == 1:
            d = doms[0] if not conds else (W.fresh("filt(%s)" % doms[0]) if doms[0] else None)
        elif len(doms) == 2 and all(doms) and not conds:
            d = "prod(%s,%s)" % (W.find(doms[0]), W.find(doms[1]))
        else:
            d = None
        return Seq(d, t)

    def ev_DictComp(self, e):
        saved = dict(self.env)
        for g in e.generators:
            it = self.ev(g.iter)
            el, d = self.elem_of_iter(it)
            self.bind(g.target, el)
            for c in g.ifs:
                self.ev(c)
        k, v = self.ev(e.key), self.ev(e.value)
        self.env = saved
        return ("map", k, v)

    def ev_Subscript(self, e):
        W = self.W
        c = self.ev(e.value)
        sl = e.slice
        if isinstance(sl, ast.Slice):
            lo = self.ev(sl.lower) if sl.lower is not None else None
            hi = self.ev(sl.upper) if sl.upper is not None else None
            if is_(c, "seq") and c[1] is not None and is_(hi, "len") and (sl.lower is None or (is_(lo, "int") and lo[1] == 0)):
                # x[0:len(S)] of an image-major sequence = the first (home) block
                sp = W.find(c[1])
                if sp.startswith("filt(prod(") or sp.startswith("prod("):
                    inner = sp[sp.index("prod(") + 5:].split(")")[0].split(",")[-1]
                    ok = inner == W.find(hi[1])
                    self.ob(e, "home-block", ok, "slice [0:%s] of a sequence over %s: the home-cell block has the inner atom count %s" % (self.show(hi), sp, inner))
                    return Seq(c[1], c[2])
            return c
        if isinstance(sl, ast.Tuple):
            parts = sl.elts
            if is_(c, "mat") and len(parts) == 2:
                ts = [None if isinstance(p, ast.Slice) else self.ev(p) for p in parts]
                for t, d, ax in zip(ts, c[1:3], ("row", "column")):
                    if is_(t, "idx") and d is not None:
                        self.ob(e, "mat-subscript", W.same(t[1], d), "%s used as %s index of a matrix over (%s, %s)  :: %s" % (
                            self.show(t), ax, W.find(c[1]) if c[1] else "?", W.find(c[2]) if c[2] else "?", ast.unparse(e)))
                if isinstance(parts[1], ast.Slice) and ts[0] is not None:
                    return Seq(c[2], NUM)
                if isinstance(parts[0], ast.Slice) and ts[1] is not None:
                    return Seq(c[1], NUM)
                return NUM
            if is_(c, "seq") and len(parts) == 2 and not isinstance(parts[0], ast.Slice):
                t0 = self.ev(parts[0])
                if is_(t0, "idx") and c[1] not in (None, "?"):
                    self.ob(e, "subscript", W.same(t0[1], c[1]), "%s used as row index of a per-item array over %s  :: %s" % (self.show(t0), W.find(c[1]), ast.unparse(e)))
                elif is_(t0, "seq") and is_(t0[2], "idx") and c[1] not in (None, "?"):
                    self.ob(e, "fancy-subscript", W.same(t0[2][1], c[1]), "%s used as row selector of a per-item array over %s  :: %s" % (self.show(t0[2]), W.find(c[1]), ast.unparse(e)))
                    return Seq(t0[1], c[2])
                return c[2]
            if is_(c, "seq") and len(parts) == 2 and isinstance(parts[0], ast.Slice):
                k = self.ev(parts[1]) if not isinstance(parts[1], ast.Slice) else None
                if is_(c[2], "tup") and is_(k, "int") and 0 <= k[1] < len(c[2][1]):
                    return Seq(c[1], c[2][1][k[1]])
                if isinstance(parts[1], ast.Slice):
                    return Seq(c[1], VEC)
                return Seq(c[1], NUM)
            return None
        i = self.ev(sl)
        if is_(c, "seq"):
            if is_(i, "idx"):
                if c[1] is not None and c[1] != "?":
                    self.ob(e, "subscript", W.same(i[1], c[1]), "%s used to index a sequence over %s  :: %s" % (self.show(i), W.find(c[1]), ast.unparse(e)))
                return c[2]
            if is_(i, "int"):
                return c[2]
            if is_(i, "seq") and i[2] == BOOL:
                return Seq(W.fresh("filt(%s)" % c[1]), c[2])
            if is_(i, "seq") and is_(i[2], "idx"):
                if c[1] is not None:
                    self.ob(e, "fancy-subscript", W.same(i[2][1], c[1]), "%s used to index a sequence over %s  :: %s" % (self.show(i[2]), W.find(c[1]), ast.unparse(e)))
                return Seq(i[1], c[2])
            return c[2] if c[2] == VEC and i is None else None
        if is_(c, "tup") and is_(i, "int") and -len(c[1]) <= i[1] < len(c[1]):
            return c[1][i[1]]
        if is_(c, "map"):
            if is_(i, "idx") and is_(c[1], "idx"):
                self.ob(e, "map-lookup", W.same(i[1], c[1][1]), "%s used as key of a map keyed by %s  :: %s" % (self.show(i), self.show(c[1]), ast.unparse(e)))
            return c[2]
        if c == VEC:
            return NUM
        return None

    # ---- calls -----------------------------------------------------------------------------------
    def call_user(self, fnobj, args, kw, node):
        W = self.W
        if fnobj.name in W.seeds:
            r = W.seeds[fnobj.name](self, args, kw)
            if r is not None:
                return r
        if W.depth > 4:
            return None
        W.depth += 1
        try:
            f = Fn(W, fnobj, fnobj.node, qual=fnobj.qualname)
            params = list(fnobj.params)
            for p, d in fnobj.param_defaults().items():
                f.env[p] = f.ev(d)
            for p, a in zip(params, args):
                f.env[p] = a
            for k, v in kw.items():
                f.env[k] = v
            f.run(fnobj.node.body)
            tups = [r for r in f.rets if is_(r, "tup")]
            return max(tups, key=lambda r: len(r[1])) if tups else f.ret
        finally:
            W.depth -= 1

    def ev_Call(self, e):
        W = self.W
        fn = e.func
        args = [self.ev(a) for a in e.args]
        kw = {k.arg: self.ev(k.value) for k in e.keywords if k.arg}
        name = fn.id if isinstance(fn, ast.Name) else fn.attr if isinstance(fn, ast.Attribute) else None
        a0 = args[0] if args else None
        if isinstance(fn, ast.Name) and is_(self.env.get(name), "lambda"):
            _, lam, owner = self.env[name]
            saved = dict(owner.env)
            for p, a in zip(lam.args.args, args):
                owner.env[p.arg] = a
            r = owner.ev(lam.body)
            owner.env = saved
            return r
        if isinstance(fn, ast.Name) and is_(self.env.get(name), "closure"):
            _, node, owner = self.env[name]
            f = Fn(W, self.fnobj, node, owner.env, qual=owner.qual + "." + node.name)
            for p, a in zip([a.arg for a in node.args.args], args):
                f.env[p] = a
            f.run(node.body)
            return f.ret
        if isinstance(fn, ast.Name) and name in W.funcs and name not in self.env:
            return self.call_user(W.funcs[name], args, kw, e)
        # methods on Atoms values
        if isinstance(fn, ast.Attribute):
            recv = self.ev(fn.value)
            if is_(recv, "atoms"):
                if name == "copy":
                    return recv
                if name == "replicate":
                    return ("atoms", W.fresh("repl(%s)" % recv[1]))
                if name == "extend":
                    other = a0 if args else kw.get("other")
                    m = kw.get("structure_index_map") if "structure_index_map" in kw else (args[2] if len(args) > 2 else None)
                    if is_(m, "map") and is_(other, "atoms"):
                        if is_(m[1], "idx"):
                            self.ob(e, "extend-map-key", W.same(m[1][1], other[1]),
                                    "identity map keys are %s; they must index the appended fragment (%s)" % (self.show(m[1]), W.find(other[1])))
                        if is_(m[2], "idx"):
                            self.ob(e, "extend-map-value", W.same(m[2][1], recv[1]),
                                    "identity map values are %s; they must index the receiving structure (%s)" % (self.show(m[2]), W.find(recv[1])))
                    return None
                if name in ("translate", "extend_types"):
                    return None
                if name == "_extend_extra_fields":
                    o = a0 if is_(a0, "atoms") else None
                    return ("tup", [Seq(o[1], None) if o else None, None, None, None, None])
                if name == "cell_is_orthorhombic":
                    return BOOL
        if name == "uc_neighbor_offsets":
            return Seq("IMG", VEC)
        if name == "len":
            if is_(a0, "atoms"):
                return ("len", a0[1])
            if is_(a0, "seq") and a0[1] and a0[1] != "?":
                return ("len", a0[1])
            return None
        if name == "range":
            last = args[-1] if args else None
            if is_(last, "len") or is_(last, "idx"):
                return Seq(None if len(args) > 1 else last[1], Idx(last[1]))
            return Seq(None, None)
        if name == "enumerate":
            if is_(a0, "seq") and (a0[1] is None or a0[1] == "?") and e.args and isinstance(e.args[0], ast.Name):
                a0 = Seq(W.fresh("dom(" + e.args[0].id + ")"), a0[2])
                self.env[e.args[0].id] = a0
            return Seq(a0[1], ("tup", [Idx(a0[1]) if a0[1] else None, a0[2]])) if is_(a0, "seq") else None
        if name == "zip":
            if all(is_(a, "seq") for a in args) and args:
                d = args[0][1]
                return Seq(d, ("tup", [a[2] for a in args]))
            return None
        if name in ("list", "tuple", "array", "asarray"):
            if args:
                if is_(a0, "set"):
                    return Seq(None, a0[1])
                if is_(a0, "map"):
                    return Seq(None, a0[1])
                return a0
            return None
        if name == "copy" and isinstance(fn, ast.Attribute):
            return self.ev(fn.value)
        if name == "sorted":
            return Seq(W.fresh("sorted"), a0[2]) if is_(a0, "seq") else None
        if name == "dict" and isinstance(fn, ast.Name):
            # dict(pairs): a sequence of (key, value) tuples becomes a map key -> value
            if args and is_(a0, "seq") and is_(a0[2], "tup") and len(a0[2][1]) == 2:
                return ("map", a0[2][1][0], a0[2][1][1])
            if args and is_(a0, "map"):
                return a0
            return None
        if name == "set":
            if not args:
                return ("set", None)
            if is_(a0, "seq"):
                return ("set", a0[2])
            if is_(a0, "set"):
                return a0
            return ("set", None)
        if name == "cdist":
            if len(args) >= 2 and is_(args[0], "seq") and is_(args[1], "seq"):
                return ("mat", args[0][1], args[1][1])
            return None
        if name == "max" and isinstance(fn, ast.Attribute):
            return NUM
        if name == "argmax":
            if is_(a0, "mat"):
                return ("flatidx", a0)
            return Idx(a0[1]) if is_(a0, "seq") and a0[1] else None
        if name == "unravel_index" and is_(a0, "flatidx"):
            return ("tup", [Idx(a0[1][1]), Idx(a0[1][2])])
        if name == "astype":
            return self.ev(fn.value)
        if name == "apply":
            return a0
        if name in ("identity", "from_quat"):
            return ROT
        if name == "choice":
            return a0[2] if is_(a0, "seq") else None
        if name == "sample":
            return Seq(W.fresh("sample"), a0[2]) if is_(a0, "seq") else None
        if name == "round":
            return NUM
        if name == "items":
            v = self.ev(fn.value)
            return Seq(None, ("tup", [v[1], v[2]])) if is_(v, "map") else None
        if name == "values":
            v = self.ev(fn.value)
            return Seq(None, v[2]) if is_(v, "map") else None
        if name == "keys":
            v = self.ev(fn.value)
            return Seq(None, v[1]) if is_(v, "map") else None
        if name == "get" and isinstance(fn, ast.Attribute):
            v = self.ev(fn.value)
            if is_(v, "map"):
                if is_(a0, "idx") and is_(v[1], "idx"):
                    self.ob(e, "map-lookup", W.same(a0[1], v[1][1]), "%s used as key of a map keyed by %s" % (self.show(a0), self.show(v[1])))
                return v[2]
            return None
        if name == "nonzero":
            return ("tup", [Seq(W.fresh("filt"), Idx(a0[1]))]) if is_(a0, "seq") and a0[1] else None
        if name in ("isdisjoint", "issubset", "issuperset", "union", "intersection", "difference"):
            v = self.ev(fn.value)
            if is_(v, "set") and is_(a0, "set") and is_(v[1], "idx") and is_(a0[1], "idx"):
                self.ob(e, "set-op", W.same(v[1][1], a0[1][1]), "%s %s %s" % (self.show(v[1]), name, self.show(a0[1])))
            return BOOL if name.startswith("is") else v
        if name == "update" and isinstance(fn, ast.Attribute) and isinstance(fn.value, ast.Name):
            v = self.env.get(fn.value.id)
            if is_(v, "map") and is_(a0, "map"):
                if is_(v[1], "idx") and is_(a0[1], "idx"):
                    self.ob(e, "map-update", W.same(v[1][1], a0[1][1]), "map keyed by %s updated with a map keyed by %s" % (self.show(v[1]), self.show(a0[1])))
                self.env[fn.value.id] = ("map", v[1] or a0[1], W.unify(v[2], a0[2]) if (v[2] is not None and a0[2] is not None) else (v[2] or a0[2]))
                return None
            if is_(v, "set") and is_(a0, "set"):
                if is_(v[1], "idx") and is_(a0[1], "idx"):
                    self.ob(e, "set-op", W.same(v[1][1], a0[1][1]), "%s update %s" % (self.show(v[1]), self.show(a0[1])))
                self.env[fn.value.id] = ("set", v[1] or a0[1])
            return None
        if name == "append" and isinstance(fn, ast.Attribute) and isinstance(fn.value, ast.Name):
            cur = self.env.get(fn.value.id)
            d = self.append_dom(fn.value.id)
            if is_(cur, "seq"):
                if cur[1] is None or cur[1] == "?":
                    new = Seq(d, W.unify(cur[2], a0))
                else:
                    if W.find(cur[1]).startswith("filt") and str(d).startswith("filt"):
                        W.union(cur[1], d)
                    new = Seq(cur[1] if W.same(cur[1], d) else W.fresh("mixed"), W.unify(cur[2], a0))
                self.env[fn.value.id] = new
            return None
        if name == "append" and isinstance(fn, ast.Attribute) and isinstance(fn.value, ast.Subscript) and isinstance(fn.value.value, ast.Name):
            # buckets[k].append(i): the bucket lists hold what is appended
            cur = self.env.get(fn.value.value.id)
            if is_(cur, "map") and is_(cur[2], "seq") and a0 is not None:
                self.env[fn.value.value.id] = ("map", cur[1], Seq(cur[2][1], W.unify(cur[2][2], a0)))
            return None
        if name in ("allclose", "isclose"):
            return BOOL
        return None

    # ---- statements ------------------------------------------------------------------------------
    def run(self, stmts):
        for st in stmts:
            m = getattr(self, "st_" + type(st).__name__, None)
            if m:
                m(st)

    def st_Expr(self, st):
        self.ev(st.value)

    def st_Return(self, st):
        t = self.ev(st.value) if st.value is not None else None
        self.rets.append(t)
        self.ret = t if self.ret is None else (self.W.unify(self.ret, t) or self.ret)

    def st_Assign(self, st):
        v = self.ev(st.value)
        if isinstance(st.value, ast.List) and not st.value.elts:
            v = Seq("?", None)
            for t in st.targets:
                if isinstance(t, ast.Name):
                    self.init_depth[t.id] = len(self.ctx)
        for t in st.targets:
            if isinstance(t, ast.Subscript):
                c = self.ev(t.value)
                if not is_(c, "map"):
                    self.ev(t)      # a store through an index is an index obligation too
                i = self.ev(t.slice) if not isinstance(t.slice, (ast.Slice, ast.Tuple)) else None
                if is_(c, "map") and isinstance(t.value, ast.Name):
                    self.env[t.value.id] = ("map", self.W.unify(c[1], i) if c[1] else i, self.W.unify(c[2], v) if c[2] else v)
                continue
            if isinstance(t, ast.Attribute):
                continue
            self.bind(t, v)

    def st_AugAssign(self, st):
        W = self.W
        v = self.ev(st.value)
        if isinstance(st.target, ast.Name):
            cur = self.env.get(st.target.id)
            if is_(cur, "set") and is_(v, "set"):
                if is_(cur[1], "idx") and is_(v[1], "idx"):
                    self.ob(st, "set-op", W.same(cur[1][1], v[1][1]), "%s |= %s" % (self.show(cur[1]), self.show(v[1])))
                self.env[st.target.id] = ("set", cur[1] or v[1])
            elif is_(cur, "seq") and is_(v, "seq"):
                self.env[st.target.id] = Seq(W.fresh("concat"), W.unify(cur[2], v[2]))

    def st_If(self, st):
        W = self.W
        self.ev(st.test)
        saved = dict(self.env)
        self.ctx.append(("if", st))
        self.run(st.body)
        self.ctx.pop()
        e1 = self.env
        self.env = dict(saved)
        self.ctx.append(("if", st))
        self.run(st.orelse)
        self.ctx.pop()
        e2 = self.env
        W.join = True
        W.join_key = "if@%s" % getattr(st, "lineno", id(st))
        self.env = {k: W.unify(e1.get(k), e2.get(k)) if (k in e1 and k in e2) else (e1.get(k) or e2.get(k)) for k in set(e1) | set(e2)}
        W.join = False
        W.join_key = None

    def st_For(self, st):
        it = self.ev(st.iter)
        el, d = self.elem_of_iter(it)
        if d is None:
            # an iteration space the inference has no name for (dict views, generators): the loop itself is the space - lists that receive one item per
            # iteration of this loop are parallel to each other
            key = ("loop", id(st), self.qual)
            if key not in self.W.filt:
                self.W.filt[key] = self.W.fresh("loop")
            d = self.W.filt[key]
        for _ in range(2):
            self.bind(st.target, el)
            self.ctx.append(("for", d, st))
            self.run(st.body)
            self.ctx.pop()
        if st.orelse:
            self.run(st.orelse)     # the else clause runs after the loop, in the enclosing context

    def st_While(self, st):
        self.ev(st.test)
        self.run(st.body)
        if st.orelse:
            self.run(st.orelse)

    def st_With(self, st):
        self.run(st.body)

    def st_FunctionDef(self, st):
        self.env[st.name] = ("closure", st, self)

    def st_Delete(self, st):
        W = self.W
        for t in st.targets:
            if isinstance(t, ast.Subscript):
                c = self.ev(t.value)
                i = self.ev(t.slice)
                if is_(c, "atoms") and is_(i, "seq") and is_(i[2], "idx"):
                    self.ob(st, "delete-index", W.same(i[2][1], c[1]), "deleting %s from a structure over %s" % (self.show(i[2]), W.find(c[1])))
            else:
                self.ev(t)


def analyse(repo, qualname, env, seeds=None):
    W = World(repo)
    if seeds:
        W.seeds.update(seeds)
    fnobj = repo.fn(qualname)
    f = Fn(W, fnobj, fnobj.node, env, qual=fnobj.qualname)
    for p, d in fnobj.param_defaults().items():
        f.env.setdefault(p, f.ev(d))
    f.run(fnobj.node.body)
    tups = [r for r in f.rets if is_(r, "tup")]
    if tups:
        f.ret = max(tups, key=lambda r: len(r[1]))
    return W, f
