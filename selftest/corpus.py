"""Both-ways validation of a property's rules (thorough tier): behaviour-preserving variants of the current
tree must stay silent, breaking variants must be reported.  Variants are only analysed, never executed."""
import glob
import json
import os
import shutil
import subprocess
import sys
from multiprocessing import Pool

from verif_sa.core import AnalysisError, VERIF_ROOT
from . import harness, benign
from .mutants import MUTANTS


def _seeded_for(prop):
    out = []
    for meta_path in sorted(glob.glob(os.path.join(VERIF_ROOT, "seeded", "*", "meta.json"))):
        try:
            meta = json.load(open(meta_path))
        except Exception:
            continue
        if meta.get("property") == prop:
            out.append((meta["id"], os.path.join(os.path.dirname(meta_path), "patch.diff")))
    return out


def _run_patch_variant(args):
    root, vid, patch_path, props = args
    d = harness.scratch_copy(root)
    try:
        p = subprocess.run(["patch", "-p1", "-s", "-f", "-i", patch_path], cwd=d, capture_output=True, text=True)
        if p.returncode != 0:
            return vid, None
        return vid, harness.evaluate(d, props)
    finally:
        shutil.rmtree(d, ignore_errors=True)


def run_corpus(prop, skip=False, seed=0, jobs=16):
    root = os.environ.get("VERIF_REPO", "/repo")
    info = {"skipped_because_tree_violates": bool(skip)}
    if skip:
        return info
    base = harness.evaluate(root, [prop])
    # --- behaviour-preserving variants
    ben = list(benign.all_benign(root))
    bjobs = [(root, vid, rel, src, [prop]) for vid, rel, src in ben]
    # --- breaking variants
    mjobs = []
    skipped = []
    for mid, rel, old, new, props in MUTANTS:
        if prop not in props:
            continue
        path = os.path.join(root, rel)
        if not os.path.exists(path):
            skipped.append(mid)
            continue
        src = open(path).read()
        pairs = old if isinstance(old, list) else [(old, new)]
        if any(src.count(o) != 1 for o, _ in pairs):
            skipped.append(mid)
            continue
        for o, n_ in pairs:
            src = src.replace(o, n_)
        mjobs.append((root, "mutant:" + mid, rel, src, [prop]))
    pjobs = [(root, "seeded:" + sid, pth, [prop]) for sid, pth in _seeded_for(prop)]
    rjobs = [(root, "refactor:" + os.path.basename(os.path.dirname(pth)) + "-" + os.path.basename(pth)[9:-5], pth, [prop])
             for pth in sorted(glob.glob(os.path.join(VERIF_ROOT, "refactors", "*", "refactor_*.diff")))]
    with Pool(min(jobs, max(1, len(bjobs) + len(mjobs) + len(pjobs)))) as pool:
        bres = pool.map(harness.run_variant, bjobs)
        mres = pool.map(harness.run_variant, mjobs)
        pres = pool.map(_run_patch_variant, pjobs)
        rres = pool.map(_run_patch_variant, rjobs)
    false_alarms = []
    for vid, res in bres:
        new, err = harness.diff_against(base, res)
        if new or err:
            false_alarms.append((vid, new, err))
    # independent behaviour-preserving refactorings: never a violation; "cannot decide" (exit 2) is acceptable and counted
    undecided_refactors = 0
    applied_refactors = 0
    for vid, res in rres:
        if res is None:
            continue
        applied_refactors += 1
        new, err = harness.diff_against(base, res)
        if new:
            false_alarms.append((vid, new, err))
        elif err:
            undecided_refactors += 1
    missed = []
    caught = []
    for vid, res in mres + [(v, r) for v, r in pres if r is not None]:
        new, err = harness.diff_against(base, res)
        if prop in new:
            caught.append({"variant": vid, "reported": new[prop][:3]})
        else:
            missed.append((vid, err.get(prop, "")[:160]))
    skipped += [v for v, r in pres if r is None]
    info.update({
        "behaviour_preserving_variants": len(bres), "false_alarms": len(false_alarms),
        "breaking_variants": len(mres) + len([1 for v, r in pres if r is not None]), "reported": len(caught), "missed": len(missed),
        "variants_not_applicable_to_this_tree": skipped,
        "independent_refactorings_applied": applied_refactors, "independent_refactorings_undecided": undecided_refactors,
        "sample_breaking": caught[:5],
    })
    if false_alarms:
        raise AnalysisError("selftest %s: %d behaviour-preserving variant(s) were reported, e.g. %s" % (prop, len(false_alarms), str(false_alarms[0])[:300]))
    if missed:
        raise AnalysisError("selftest %s: %d breaking variant(s) were NOT reported, e.g. %s" % (prop, len(missed), str(missed[0])[:300]))
    total_breaking = info["breaking_variants"]
    if total_breaking < 2:
        raise AnalysisError("selftest %s: only %d breaking variants applicable to this tree" % (prop, total_breaking))
    return info
