"""Confirm a seeded change (patch + demo) in its scratch worktree and evaluate the static checks on it.
usage: seed_eval.py <worktree> <n> [--no-pytest]"""
import json
import os
import subprocess
import sys

sys.path.insert(0, os.path.dirname(os.path.dirname(os.path.abspath(__file__))))
from selftest import harness  # noqa: E402

PY = "/venv/bin/python"


def sh(cmd, cwd, timeout=900):
    p = subprocess.run(cmd, cwd=cwd, shell=True, capture_output=True, text=True, timeout=timeout)
    return p.returncode, (p.stdout + p.stderr)


def main():
    wt, n = sys.argv[1], sys.argv[2]
    do_pytest = "--no-pytest" not in sys.argv
    patch = os.path.join(wt, "_seed", "patch_%s.diff" % n)
    demo = os.path.join("_seed", "demo_%s.py" % n)
    out = {"worktree": wt, "n": n}
    sh("git checkout -- mofun; rm -f test-01.cif", wt)
    rc, o = sh("%s %s" % (PY, demo), wt)
    out["demo_clean_exit"] = rc
    base = harness.evaluate(wt)
    rc, o = sh("git apply %s" % patch, wt)
    if rc != 0:
        out["apply_error"] = o[-300:]
        print(json.dumps(out, indent=1))
        return
    try:
        rc, o = sh("%s %s" % (PY, demo), wt)
        out["demo_patched_exit"] = rc
        out["demo_patched_tail"] = o[-300:]
        if do_pytest:
            rc, o = sh("%s -m pytest -q -p no:cacheprovider --timeout=900 2>&1 | tail -1" % PY, wt)
            out["pytest_patched"] = o.strip()
        res = harness.evaluate(wt)
        new, err = harness.diff_against(base, res)
        out["new_violations"] = new
        out["analysis_errors"] = err
    finally:
        sh("git checkout -- mofun; rm -f test-01.cif", wt)
    print(json.dumps(out, indent=1))


if __name__ == "__main__":
    main()
