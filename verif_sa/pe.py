"""Partial evaluator: a function body over symbolic parameters -> decision list
[(path conditions, ('ret', term) | ('raise',))], with AC-normalisation of terms.

Terms are nested tuples.  Nothing is executed; ``print`` and other expression statements are
ignored; loops are opaque binders; unknown constructs become ('opaque', dump) so that two runs
only compare equal when they are syntactically equal after normalisation."""
import ast

from .core import AnalysisError


def P(name):
    return ("param", name)


def key(t):
    return repr(t)


class Normalizer:
    def __init__(self, comm_calls=None):
        # fname -> list of [group_a_indices, group_b_indices] that may be swapped together
        self.comm_calls = comm_calls or {}

    def norm(self, t):
        if not isinstance(t, tuple):
            return t
        if not t or not isinstance(t[0], str):
            return tuple(self.norm(x) for x in t)
        op = t[0]
        args = [self.norm(a) for a in t[1:]]
        if op in ("add", "mul", "or", "and", "set", "eq", "ne", "bitand", "bitor"):
            flat = []
            for a in args:
                if isinstance(a, tuple) and a and a[0] == op and op in ("add", "mul", "or", "and", "bitand", "bitor"):
                    flat += list(a[1:])
                else:
                    flat.append(a)
            if op == "set":
                # duplicates collapse in a set literal
                uniq = []
                for a in sorted(flat, key=key):
                    if not uniq or uniq[-1] != a:
                        uniq.append(a)
                flat = uniq
            return (op,) + tuple(sorted(flat, key=key))
        if op == "pow" and len(args) == 2 and args[1] == ("const", 2) and isinstance(args[0], tuple) and args[0][0] == "sub":
            a, b = args[0][1], args[0][2]
            lo, hi = sorted([a, b], key=key)
            return ("pow", ("sub", lo, hi), args[1])
        if op == "call" and args and args[0] in self.comm_calls:
            pos = list(args[1][1:])
            for grp in self.comm_calls[args[0]]:
                ga, gb = grp
                if max(ga + gb) < len(pos):
                    a = [pos[i] for i in ga]
                    b = [pos[i] for i in gb]
                    if key(b) < key(a):
                        for i, j in zip(ga, gb):
                            pos[i], pos[j] = pos[j], pos[i]
            return ("call", args[0], ("args",) + tuple(pos)) + tuple(args[2:])
        if op == "not" and len(args) == 1 and isinstance(args[0], tuple) and args[0] and args[0][0] == "not":
            return args[0][1]
        return (op,) + tuple(args)


_BIN = {ast.Add: "add", ast.Mult: "mul", ast.Sub: "sub", ast.Div: "div", ast.Pow: "pow", ast.Mod: "mod",
        ast.BitAnd: "bitand", ast.BitOr: "bitor", ast.FloorDiv: "floordiv", ast.MatMult: "matmul"}
_CMP = {ast.Eq: "eq", ast.NotEq: "ne", ast.LtE: "le", ast.Lt: "lt", ast.Gt: "gt", ast.GtE: "ge", ast.In: "in",
        ast.NotIn: "notin", ast.Is: "is", ast.IsNot: "isnot"}


class PE:
    def __init__(self, binding, max_paths=256, resolver=None, depth=0):
        self.env = dict(binding)
        self.out = []
        self.max_paths = max_paths
        self.resolver = resolver      # name -> ast.FunctionDef of a package helper that may be inlined
        self.depth = depth

    def _inline(self, fdef, args, kws):
        a = fdef.args
        pos = a.posonlyargs + a.args
        binding = {}
        for p_, v in zip(pos, args):
            binding[p_.arg] = v
        for k, v in kws:
            binding[k] = v
        sub = PE(binding, self.max_paths, self.resolver, self.depth + 1)
        for p_, d in zip(pos[len(pos) - len(a.defaults):], a.defaults):
            if p_.arg not in sub.env:
                sub.env[p_.arg] = sub.ev(d)
        for p_ in pos:
            sub.env.setdefault(p_.arg, ("unbound", p_.arg))
        try:
            done = sub.run(fdef.body, [])
        except AnalysisError:
            return None
        if not done or not sub.out or any(r[0] != "ret" for c, r in sub.out) or any(any(isinstance(x, tuple) and x and x[0] == "inloop" for x in c) for c, r in sub.out):
            return None
        res = sub.out[-1][1][1]
        for conds, r in reversed(sub.out[:-1]):
            cond = conds[0] if len(conds) == 1 else ("and",) + tuple(conds)
            res = ("ifexp", cond, r[1], res)
        return res

    # ---- expressions -----------------------------------------------------------------------------
    def ev(self, e):
        if e is None:
            return ("const", None)
        if isinstance(e, ast.Constant):
            v = e.value
            if isinstance(v, float) and v == int(v):
                v = int(v)
            return ("const", v)
        if isinstance(e, ast.Name):
            return self.env.get(e.id, ("free", e.id))
        if isinstance(e, (ast.List, ast.Tuple)):
            if any(isinstance(x, ast.Starred) for x in e.elts):
                parts = []
                for x in e.elts:
                    if isinstance(x, ast.Starred):
                        v = self.ev(x.value)
                        if v[0] == "list":
                            parts.extend(v[1:])
                        else:
                            parts.append(("star", v))
                    else:
                        parts.append(self.ev(x))
                return ("list",) + tuple(parts)
            return ("list",) + tuple(self.ev(x) for x in e.elts)
        if isinstance(e, ast.Set):
            return ("set",) + tuple(self.ev(x) for x in e.elts)
        if isinstance(e, ast.Dict):
            return ("dict",) + tuple((self.ev(k), self.ev(v)) for k, v in zip(e.keys, e.values))
        if isinstance(e, ast.BinOp):
            op = _BIN.get(type(e.op))
            if op is None:
                return ("opaque", ast.dump(e))
            l, r = self.ev(e.left), self.ev(e.right)
            if l[0] == "const" and isinstance(l[1], str):
                try:
                    if op == "add" and r[0] == "const" and isinstance(r[1], str):
                        return ("const", l[1] + r[1])
                    if op == "mod" and r[0] == "const":
                        return ("const", l[1] % r[1])
                    if op == "mod" and r[0] == "list" and all(x[0] == "const" for x in r[1:]):
                        return ("const", l[1] % tuple(x[1] for x in r[1:]))
                except Exception:
                    pass
            return (op, l, r)
        if isinstance(e, ast.UnaryOp):
            if isinstance(e.op, ast.Not):
                return ("not", self.ev(e.operand))
            if isinstance(e.op, ast.USub):
                v = self.ev(e.operand)
                if v[0] == "const" and isinstance(v[1], (int, float)):
                    return ("const", -v[1])
                return ("neg", v)
            return (type(e.op).__name__, self.ev(e.operand))
        if isinstance(e, ast.BoolOp):
            return ("or" if isinstance(e.op, ast.Or) else "and",) + tuple(self.ev(v) for v in e.values)
        if isinstance(e, ast.Compare):
            parts = []
            left = e.left
            for op, right in zip(e.ops, e.comparators):
                opn = _CMP.get(type(op), "cmp")
                parts.append((opn, self.ev(left), self.ev(right)))
                left = right
            return parts[0] if len(parts) == 1 else ("and",) + tuple(parts)
        if isinstance(e, ast.IfExp):
            return ("ifexp", self.ev(e.test), self.ev(e.body), self.ev(e.orelse))
        if isinstance(e, ast.Subscript):
            v = self.ev(e.value)
            if isinstance(e.slice, ast.Slice):
                i = ("slice", self.ev(e.slice.lower) if e.slice.lower else None, self.ev(e.slice.upper) if e.slice.upper else None,
                     self.ev(e.slice.step) if e.slice.step else None)
            else:
                i = self.ev(e.slice)
            if v[0] == "list" and i[0] == "const" and isinstance(i[1], int) and -len(v) + 1 <= i[1] < len(v) - 1:
                return v[1 + i[1]] if i[1] >= 0 else v[len(v) + i[1]]
            if v[0] == "list" and i[0] == "slice" and all(b is None or (isinstance(b, tuple) and b[0] == "const" and (b[1] is None or isinstance(b[1], int))) for b in i[1:4]):
                lo, hi, st = [(b[1] if b is not None else None) for b in i[1:4]]
                return ("list",) + tuple(list(v[1:])[slice(lo, hi, st)])
            return ("sub[]", v, i)
        if isinstance(e, ast.Attribute):
            return ("attr", self.ev(e.value), e.attr)
        if isinstance(e, ast.Call):
            f = e.func
            fname = f.id if isinstance(f, ast.Name) else None
            args = []
            for a in e.args:
                if isinstance(a, ast.Starred):
                    v = self.ev(a.value)
                    if v[0] == "list":
                        args.extend(v[1:])
                    else:
                        args.append(("star", v))
                else:
                    args.append(self.ev(a))
            args = ("args",) + tuple(args)
            kws = ("kws",) + tuple(sorted(((k.arg or "**"), self.ev(k.value)) for k in e.keywords))
            a1 = args[1] if len(args) > 1 else None
            if fname == "len" and a1 is not None and a1[0] in ("list", "set"):
                return ("const", len(a1) - 1) if a1[0] == "list" else ("len", a1)
            if fname in ("tuple", "list") and a1 is not None and a1[0] == "list":
                return a1
            if fname == "set" and a1 is not None and a1[0] == "list":
                return ("set",) + a1[1:]
            if fname == "reversed" and a1 is not None and a1[0] == "list":
                return ("list",) + tuple(reversed(a1[1:]))
            if fname == "getattr" and len(args) == 3 and args[2][0] == "const" and isinstance(args[2][1], str):
                return ("attr", args[1], args[2][1])
            if fname is not None and self.resolver is not None and self.depth < 3 and not any(isinstance(x, tuple) and x and x[0] == "star" for x in args[1:]):
                fdef = self.resolver(fname)
                if fdef is not None:
                    r_ = self._inline(fdef, list(args[1:]), list(kws[1:]))
                    if r_ is not None:
                        return r_
            if fname is None:
                if isinstance(f, ast.Attribute):
                    return ("mcall", self.ev(f.value), f.attr, args, kws)
                return ("opaque", ast.dump(e))
            return ("call", fname, args, kws)
        if isinstance(e, (ast.ListComp, ast.GeneratorExp)) and len(e.generators) == 1 and not e.generators[0].ifs:
            g = e.generators[0]
            it = self.ev(g.iter)
            if it[0] == "list" and isinstance(g.target, ast.Name):
                res = []
                for x in it[1:]:
                    old = self.env.get(g.target.id, _MISSING)
                    self.env[g.target.id] = x
                    res.append(self.ev(e.elt))
                    if old is _MISSING:
                        del self.env[g.target.id]
                    else:
                        self.env[g.target.id] = old
                return ("list",) + tuple(res)
            return ("comp", it, ast.dump(e.elt))
        if isinstance(e, ast.JoinedStr):
            return ("fstr", ast.dump(e))
        return ("opaque", ast.dump(e))

    # ---- statements ------------------------------------------------------------------------------
    def assign(self, t, v):
        if isinstance(t, ast.Name):
            self.env[t.id] = v
        elif isinstance(t, (ast.Tuple, ast.List)):
            if v[0] == "list" and len(v) - 1 == len(t.elts):
                for tt, vv in zip(t.elts, v[1:]):
                    self.assign(tt, vv)
            else:
                for i, tt in enumerate(t.elts):
                    self.assign(tt, ("sub[]", v, ("const", i)))
        else:
            # attribute / subscript stores: effects are outside the decision list
            pass

    def run(self, stmts, conds):
        """Returns True if every path through ``stmts`` terminated (return/raise)."""
        for st in stmts:
            if len(self.out) > self.max_paths:
                raise AnalysisError("partial evaluator: more than %d paths" % self.max_paths)
            if isinstance(st, ast.Expr):
                continue
            if isinstance(st, ast.Assign):
                v = self.ev(st.value)
                for t in st.targets:
                    self.assign(t, v)
            elif isinstance(st, ast.AugAssign):
                op = _BIN.get(type(st.op), "aug")
                if isinstance(st.target, ast.Name):
                    self.env[st.target.id] = (op, self.ev(st.target), self.ev(st.value))
            elif isinstance(st, ast.AnnAssign):
                if st.value is not None:
                    self.assign(st.target, self.ev(st.value))
            elif isinstance(st, ast.Return):
                self.out.append((tuple(conds), ("ret", self.ev(st.value)) if st.value is not None else ("ret", ("const", None))))
                return True
            elif isinstance(st, ast.Raise):
                self.out.append((tuple(conds), ("raise",)))
                return True
            elif isinstance(st, ast.If):
                c = self.ev(st.test)
                saved = dict(self.env)
                t1 = self.run(st.body, conds + [c])
                env1 = self.env
                self.env = dict(saved)
                t2 = self.run(st.orelse, conds + [("not", c)]) if st.orelse else False
                env2 = self.env
                if t1 and t2:
                    return True
                if t1:
                    self.env = env2
                    conds = conds + [("not", c)]
                elif t2:
                    self.env = env1
                    conds = conds + [c]
                else:
                    m = {}
                    for k in set(env1) | set(env2):
                        a, b = env1.get(k, ("unbound", k)), env2.get(k, ("unbound", k))
                        m[k] = a if a == b else ("phi", c, a, b)
                    self.env = m
            elif isinstance(st, (ast.For, ast.While)):
                it = self.ev(st.iter) if isinstance(st, ast.For) else self.ev(st.test)
                if isinstance(st, ast.For):
                    self._bind_loop(st.target)
                self.run(st.body, conds + [("inloop", it)])
            elif isinstance(st, (ast.Continue, ast.Break)):
                return True
            elif isinstance(st, (ast.Pass, ast.Import, ast.ImportFrom, ast.Global, ast.Nonlocal, ast.FunctionDef, ast.Assert, ast.Delete)):
                continue
            elif isinstance(st, ast.With):
                if self.run(st.body, conds):
                    return True
            else:
                raise AnalysisError("partial evaluator: unsupported statement %s" % type(st).__name__)
        return False

    def _bind_loop(self, t):
        if isinstance(t, ast.Name):
            self.env[t.id] = ("loopvar", t.id)
        elif isinstance(t, (ast.Tuple, ast.List)):
            for x in t.elts:
                self._bind_loop(x)


_MISSING = object()


def decision_list(fnode, binding, normalizer=None, resolver=None):
    """Decision list of function ``fnode`` (ast.FunctionDef) under ``binding`` {param: term}."""
    normalizer = normalizer or Normalizer()
    pe = PE(binding, resolver=resolver)
    a = fnode.args
    pos = a.posonlyargs + a.args
    for p, d in zip(pos[len(pos) - len(a.defaults):], a.defaults):
        if p.arg not in pe.env:
            pe.env[p.arg] = pe.ev(d)
    for p, d in zip(a.kwonlyargs, a.kw_defaults):
        if d is not None and p.arg not in pe.env:
            pe.env[p.arg] = pe.ev(d)
    for p in pos + a.kwonlyargs:
        pe.env.setdefault(p.arg, P(p.arg))
    done = pe.run(fnode.body, [])
    if not done:
        pe.out.append(((), ("ret", ("const", None))))
    return [(tuple(sorted({normalizer.norm(c) for c in conds}, key=key)) if False else tuple(normalizer.norm(c) for c in conds),
             normalizer.norm(r)) for conds, r in pe.out]


def first_difference(a, b):
    for i, (x, y) in enumerate(zip(a, b)):
        if x != y:
            return i, x, y
    if len(a) != len(b):
        return min(len(a), len(b)), None, None
    return None


def leaves(dl):
    """Return terms of a decision list."""
    return [r for _, r in dl]


def decision_list_inlined(repo, fn, binding, normalizer=None, depth=2):
    """Decision list in which a leaf that is a direct call of a helper defined in the package
    (``self.helper(...)``, ``Class.helper(...)`` or a module-level function) is replaced by the helper's own
    decision list with the actual arguments bound (one leaf may become several)."""
    normalizer = normalizer or Normalizer()
    def _res(name, _fn=fn):
        c = repo.fns.get((_fn.module.name, name))
        return c.node if c is not None and c is not _fn and c.cls is None else None
    base = decision_list(fn.node, binding, normalizer, resolver=_res)
    if depth <= 0:
        return base
    out = []
    for conds, res in base:
        callee = None
        args = kws = None
        if res[0] == "ret" and isinstance(res[1], tuple):
            v = res[1]
            if v[0] == "mcall" and len(v) == 5 and fn.cls is not None and (v[1] == P("self") or v[1] == ("free", fn.cls) or v[1] == P("cls")):
                callee = repo.fns.get((fn.module.name, "%s.%s" % (fn.cls, v[2])))
                args, kws = v[3], v[4]
            elif v[0] == "call" and len(v) == 4:
                callee = repo.fns.get((fn.module.name, v[1])) or repo.maybe_fn(v[1])
                args, kws = v[2], v[3]
        if callee is None:
            out.append((conds, res))
            continue
        params = list(callee.params)
        decos = [ast.unparse(d) for d in callee.node.decorator_list]
        b2 = {}
        if callee.cls is not None and "staticmethod" not in decos:
            if params:
                b2[params[0]] = P("self") if "classmethod" not in decos else P("cls")
                params = params[1:]
        for p_, a in zip(params, args[1:]):
            b2[p_] = a
        for k, a in kws[1:]:
            b2[k] = a
        try:
            inner = decision_list_inlined(repo, callee, b2, normalizer, depth - 1)
        except AnalysisError:
            out.append((conds, res))
            continue
        for c2, r2 in inner:
            out.append((tuple(conds) + tuple(c2), r2))
    return out
