"""Evaluate a behaviour-preserving refactoring (diff) from a scratch worktree: the checks must stay silent.
usage: refactor_eval.py <worktree> <n>"""
import json
import os
import subprocess
import sys

sys.path.insert(0, os.path.dirname(os.path.dirname(os.path.abspath(__file__))))
from selftest import harness  # noqa: E402


def sh(cmd, cwd):
    p = subprocess.run(cmd, cwd=cwd, shell=True, capture_output=True, text=True, timeout=900)
    return p.returncode, p.stdout + p.stderr


def main():
    wt, n = sys.argv[1], sys.argv[2]
    sh("git checkout -- mofun; rm -f test-01.cif", wt)
    base = harness.evaluate(wt)
    rc, o = sh("git apply _seed/refactor_%s.diff" % n, wt)
    out = {"n": n}
    if rc:
        out["apply_error"] = o[-200:]
        print(json.dumps(out))
        return
    try:
        if "--pytest" in sys.argv:
            rc, o = sh("/venv/bin/python -m pytest -q -p no:cacheprovider --timeout=900 2>&1 | tail -1", wt)
            out["pytest"] = o.strip()
            rc, o = sh("/venv/bin/python _seed/equiv_%s.py" % n, wt)
            out["equiv_exit"] = rc
        res = harness.evaluate(wt)
        new, err = harness.diff_against(base, res)
        out["false_violations"] = new
        out["analysis_errors"] = {p: e[:200] for p, e in err.items()}
    finally:
        sh("git checkout -- mofun; rm -f test-01.cif", wt)
    print(json.dumps(out, indent=1))


if __name__ == "__main__":
    main()
