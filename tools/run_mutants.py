import sys, os, time
sys.path.insert(0,'/verif')
from multiprocessing import Pool
from selftest import harness
from selftest.mutants import MUTANTS
root="/repo"
base=harness.evaluate(root)
jobs=[]; skipped=[]
for mid,rel,old,new,props in MUTANTS:
    src=open(os.path.join(root,rel)).read()
    pairs = old if isinstance(old,list) else [(old,new)]
    if any(src.count(o)!=1 for o,_ in pairs):
        skipped.append((mid,[src.count(o) for o,_ in pairs])); continue
    for o,n_ in pairs: src=src.replace(o,n_)
    jobs.append((root,mid,rel,src,None))
import ast
for j in jobs:
    try: ast.parse(j[3])
    except SyntaxError as e: print("SYNTAX",j[1],e)
with Pool(16) as pool: results=pool.map(harness.run_variant,jobs)
exp={m[0]:m[4] for m in MUTANTS}
missed=0
for mid,res in results:
    new,err=harness.diff_against(base,res)
    want=exp[mid]
    miss=[p for p in want if p not in new]
    if miss:
        missed+=1
        print("MISS",mid,"want",want,"caught",sorted(new),"errors",{p:e[:100] for p,e in err.items() if p in want})
print("skipped",skipped)
print("mutants",len(results),"with a missing expected property",missed)
