"""Development helper: run one rule (or one property's rules) on /repo or on /repo + a seeded patch (scratch copy).
usage: try_rule.py <fam_x.RULE | Cxx> [seed-id | path.diff | -] [key=value ...]"""
import ast
import importlib
import os
import shutil
import subprocess
import sys
import tempfile

ROOT = os.path.dirname(os.path.dirname(os.path.abspath(__file__)))
sys.path.insert(0, ROOT)


def main():
    what = sys.argv[1]
    seed = sys.argv[2] if len(sys.argv) > 2 else "-"
    kwargs = {}
    for kv in sys.argv[3:]:
        k, v = kv.split("=", 1)
        kwargs[k] = ast.literal_eval(v)
    from verif_sa.facts import Repo
    from verif_sa.core import classify, AnalysisError
    root = "/repo"
    d = None
    if seed.startswith("m:"):
        # a mutant of tools/mutation_sweep.py, by its index in /tmp/ms/sweep.json
        from tools import mutation_sweep as ms
        muts = []
        for rel in ms.DEFAULT_FILES:
            muts.extend(ms.gen_mutants(rel, open(os.path.join("/repo", rel)).read()))
        m = muts[int(seed[2:])]
        print("mutant", seed, m["file"], m["func"], m["line"], m["op"], "|", m["old"][:60], "=>", m["new"][:60])
        d = tempfile.mkdtemp(prefix="try_rule_")
        shutil.copytree("/repo/mofun", os.path.join(d, "mofun"), ignore=shutil.ignore_patterns("__pycache__"))
        with open(os.path.join(d, m["file"]), "w") as f:
            f.write(m["src"])
        root = d
    elif seed.startswith("b:"):
        from selftest import benign
        v = [x for x in benign.all_benign("/repo") if x[0] == seed[2:]]
        if not v:
            print("no such benign variant; known prefixes:", sorted({x[0].split(":")[0] for x in benign.all_benign("/repo")}))
            return
        d = tempfile.mkdtemp(prefix="try_rule_")
        shutil.copytree("/repo/mofun", os.path.join(d, "mofun"), ignore=shutil.ignore_patterns("__pycache__"))
        with open(os.path.join(d, v[0][1]), "w") as f:
            f.write(v[0][2])
        if os.environ.get("SHOWDIFF"):
            subprocess.run(["diff", "-u", os.path.join("/repo", v[0][1]), os.path.join(d, v[0][1])])
        root = d
    elif seed != "-":
        patch = os.path.abspath(seed) if os.path.exists(seed) else os.path.join(ROOT, "seeded", seed, "patch.diff")
        d = tempfile.mkdtemp(prefix="try_rule_")
        shutil.copytree("/repo/mofun", os.path.join(d, "mofun"), ignore=shutil.ignore_patterns("__pycache__"))
        subprocess.run(["patch", "-p1", "-s", "-i", patch], cwd=d, check=True)
        root = d
    try:
        repo = Repo(root)
        if what.startswith("C") and what[1:].isdigit():
            from rules.registry import PROPERTIES
            entries = PROPERTIES[what]["rules"]
        else:
            mod, rule = what.split(".")
            entries = [(getattr(importlib.import_module("rules." + mod), rule), "x", kwargs)]
        for e in entries:
            rule, kw = e[0], (e[2] if len(e) > 2 else {})
            try:
                from verif_sa.core import call_rule
                obs = classify(call_rule(rule, repo, "x", **kw))
            except AnalysisError as ex:
                print("ANALYSIS-ERROR", rule.__name__, ex)
                continue
            bad = [o for o in obs if not o.ok]
            print("%s: %d obligations, %d failed" % (rule.__name__, len(obs), len(bad)))
            for o in bad:
                print("   ", o.line_text())
            if os.environ.get("ALL"):
                for o in obs:
                    if o.ok:
                        print("   ", o.line_text())
    finally:
        if d:
            shutil.rmtree(d, ignore_errors=True)


if __name__ == "__main__":
    main()
