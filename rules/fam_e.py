"""Family E: writer/reader agreement, literal tables, format and shape rules."""
import ast
import re

from .common import (Ob, AnalysisError, call_name, dotted, kwarg, get_arg, names_in, expand, nf, nf_expanded, same,
                     contains_nf, calls_in, calls_named, method_calls_on, floor, norm_guards, const_value, KINDS, ARITY,
                     kind_of, is_self_attr, fmt_slots)
from verif_sa.core import FileObj
from verif_sa.pe import P, Normalizer, decision_list
from verif_sa.siblings import _fold_label_comprehension
from .fam_d import affine
from .common import eq_const, guard_eq


# ---- E1: LAMMPS data writer <-> reader -----------------------------------------------------------

def _writes(fn):
    """(call node, format string constant or None, argument expr or None) for every f.write(...)"""
    out = []
    for c in calls_in(fn):
        if isinstance(c.func, ast.Attribute) and c.func.attr == "write" and c.args:
            a = c.args[0]
            if isinstance(a, ast.Constant) and isinstance(a.value, str):
                out.append((c, a.value, None))
            elif isinstance(a, ast.BinOp) and isinstance(a.op, ast.Mod) and isinstance(a.left, ast.Constant):
                out.append((c, a.left.value, a.right))
            else:
                out.append((c, None, a))
    return out


def E1_lmpdat_writer_reader(repo, clause):
    obs = []
    w = repo.fn("Atoms.save_lmpdat")
    r = repo.fn("Atoms.load_lmpdat")
    writes = _writes(w)
    # --- section names
    written = []
    for c, s, a in writes:
        if s is None:
            continue
        m = re.match(r"^\n?([A-Z][A-Za-z]*(?: [A-Z][a-z]+)?)\n\n$", s)
        if m:
            written.append((m.group(1), c))
    handled = None
    for n in r.own_nodes():
        if isinstance(n, ast.Assign) and isinstance(n.value, ast.List) and all(isinstance(e, ast.Constant) and isinstance(e.value, str) for e in n.value.elts) \
                and any(e.value == "Masses" for e in n.value.elts):
            handled = [e.value for e in n.value.elts]
            hname = n.targets[0].id
    if handled is None:
        raise AnalysisError("E1: list of handled sections not found in load_lmpdat")
    # the section variable: assigned from the line inside `if line in <handled list>`
    secvar = None
    for n in r.own_nodes():
        if isinstance(n, ast.If) and isinstance(n.test, ast.Compare) and isinstance(n.test.ops[0], ast.In) and isinstance(n.test.comparators[0], ast.Name) \
                and n.test.comparators[0].id == hname:
            for s2 in n.body:
                if isinstance(s2, ast.Assign) and isinstance(s2.targets[0], ast.Name) and ast.unparse(s2.value) == ast.unparse(n.test.left):
                    secvar = s2.targets[0].id
    if secvar is None:
        raise AnalysisError("E1: current-section variable not found in load_lmpdat")
    branches = set()
    for n in r.own_nodes():
        e = eq_const(n) if isinstance(n, ast.Compare) else None
        if e is not None and e[2] and isinstance(e[1], str) and isinstance(e[0], ast.Name) and e[0].id == secvar:
            branches.add(e[1])
        # table-driven branch: `secvar in {"Pair Coeffs": pair_coeffs, ...}` / `secvar in ("Bonds", "Angles")`
        if isinstance(n, ast.Compare) and len(n.ops) == 1 and isinstance(n.ops[0], ast.In) and isinstance(n.left, ast.Name) and n.left.id == secvar:
            tv = expand(r, n.comparators[0])
            keys = tv.keys if isinstance(tv, ast.Dict) else (tv.elts if isinstance(tv, (ast.Tuple, ast.List, ast.Set)) else [])
            if keys and all(isinstance(k_, ast.Constant) and isinstance(k_.value, str) for k_ in keys) and not (isinstance(n.comparators[0], ast.Name) and n.comparators[0].id == hname):
                branches.update(k_.value for k_ in keys)
    floor("E1", "sections written", len(written), 11)
    for name, c in written:
        ok = name in handled and name in branches
        obs.append(Ob("E1", clause, w, c, ok, "section `%s` written by save_lmpdat is %s by load_lmpdat" % (
            name, "recognised and parsed" if ok else "NOT parsed (in handled list: %s, parser branch: %s)" % (name in handled, name in branches)),
                      slot="section:%s" % name))
    for name in handled:
        obs.append(Ob("E1", clause, r, r.node, name in branches, "handled section `%s` has a parser branch" % name,
                      construct="current_section == '%s'" % name, slot="branch:%s" % name))
    # --- Atoms section, both styles
    def writer_cols(style):
        for c, s, a in writes:
            if s is None or a is None or not isinstance(a, ast.Tuple):
                continue
            if guard_eq(w, c, style):
                lp = [x for x in w.ancestors(c) if isinstance(x, ast.For)]
                # flatten: a `%s` slot filled with a local that is itself `"..." % (more columns)` contributes those columns; a plain local copy of a column
                # (atom_type = self.atom_types[i]) is looked through
                elts = []
                for e_ in a.elts:
                    v_ = e_
                    if isinstance(e_, ast.Name):
                        try:
                            v_ = expand(w, e_)
                        except Exception:
                            v_ = e_
                    if isinstance(v_, ast.BinOp) and isinstance(v_.op, ast.Mod) and isinstance(v_.left, ast.Constant) and isinstance(v_.left.value, str):
                        inner = v_.right.elts if isinstance(v_.right, ast.Tuple) else [v_.right]
                        for i_ in inner:
                            elts.append(_look_through(w, i_))
                    else:
                        elts.append(_look_through(w, e_))
                return c, elts, lp[0] if lp else None
        return None, None, None

    def reader_cols(style):
        res = {}
        for n in r.own_nodes():
            if isinstance(n, ast.Assign) and isinstance(n.targets[0], ast.Name):
                if not guard_eq(r, n, style):
                    continue
                for s in ast.walk(n.value):
                    if isinstance(s, ast.Subscript) and isinstance(s.slice, ast.Tuple) and len(s.slice.elts) == 2 and isinstance(s.slice.elts[0], ast.Slice):
                        col = s.slice.elts[1]
                        par = r.parents.get(s)
                        off = 0
                        if isinstance(par, ast.BinOp) and isinstance(par.op, ast.Sub) and par.left is s and const_value(par.right) == 1:
                            off = -1
                        if isinstance(col, ast.Slice):
                            res[n.targets[0].id] = (const_value(col.lower), const_value(col.upper), off)
                        else:
                            res[n.targets[0].id] = (const_value(col), None, off)
        return res

    # constructor keyword map in load_lmpdat: attribute name <- local name
    ctor = [c for c in calls_in(r) if isinstance(c.func, ast.Name) and c.func.id == "cls"]
    if len(ctor) != 1:
        raise AnalysisError("E1: constructor call in load_lmpdat not found")
    kwmap = {k.arg: (k.value.id if isinstance(k.value, ast.Name) else None) for k in ctor[0].keywords}
    for style in ("atomic", "full"):
        c, elts, lp = writer_cols(style)
        if c is None:
            raise AnalysisError("E1: writer branch for atom style %s not found" % style)
        rc = reader_cols(style)
        cols = []
        data_dependent = {}
        for j, e in enumerate(elts[:-1]):   # last element is the label comment
            txt = ast.unparse(e)
            ee = e
            # a column taken from a local array computed from self.<attr> (e.g. ids[i] with ids = self.groups + 1): look through the local
            if isinstance(e, ast.Subscript) and isinstance(e.value, ast.Name):
                dv = expand(w, e.value)
                if not (isinstance(dv, ast.Name)):
                    ee = ast.BinOp(left=ast.Constant(0), op=ast.Add(), right=dv) if False else dv
            a = affine(ee)
            attr = None
            off = 0
            for s in ast.walk(ee):
                if is_self_attr(s):
                    attr = s.attr
            if a is not None and a.get("", 0) == 1:
                off = 1
            # an offset that is itself computed from the data (min / max / mean of the column) is not a constant the reader can undo
            if attr is not None and any(isinstance(x, ast.Call) and call_name(x) in ("min", "max", "amin", "amax", "mean", "unique", "argsort") for x in ast.walk(ee)):
                data_dependent[attr] = ast.unparse(ee)[:70]
            cols.append((j, attr, off, txt))
        # id column
        obs.append(Ob("E1", clause, w, c, cols[0][1] is None and cols[0][2] == 1, "Atoms/%s: column 0 is the 1-based atom id (%s)" % (style, cols[0][3]),
                      slot="atoms-%s:id" % style))
        for attr, ctor_kw in (("groups", "groups"), ("atom_types", "atom_types"), ("charges", "charges")):
            wcol = [cc for cc in cols if cc[1] == attr]
            local = kwmap.get(ctor_kw)
            rcol = rc.get(local)
            if style == "atomic" and attr in ("groups", "charges"):
                ok = not wcol and (rcol is None)
                obs.append(Ob("E1", clause, r, r.node, ok, "Atoms/atomic: %s is neither written nor read from a column (zeros)" % attr,
                              construct="atomic:%s" % attr, slot="atoms-atomic:%s" % attr))
                continue
            ok = len(wcol) == 1 and rcol is not None and rcol[0] == wcol[0][0] and rcol[1] is None and \
                ((wcol[0][2] == 1 and rcol[2] == -1) or (wcol[0][2] == 0 and rcol[2] == 0))
            need_off = attr != "charges"
            if ok and need_off:
                ok = wcol[0][2] == 1
            dd = data_dependent.get(attr)
            if dd:
                ok = False
            obs.append(Ob("E1", clause, w, c, ok,
                          "Atoms/%s: %s written in column %s with offset %+d, read from column %s with offset %+d%s" % (
                              style, attr, wcol[0][0] if wcol else "?", wcol[0][2] if wcol else 0, rcol[0] if rcol else "?", rcol[2] if rcol else 0,
                              "" if not dd else " -- the written value `%s` is shifted by a quantity computed from the data itself; the reader subtracts the constant 1, so the column does not read back unless that quantity happens to be 0" % dd),
                          slot="atoms-%s:%s" % (style, attr),
                          # column found on both sides and the two constant offsets do not cancel: a contradiction between writer and reader whatever their shape
                          positive="robust" if (not dd and len(wcol) == 1 and rcol is not None and rcol[0] == wcol[0][0] and rcol[1] is None and wcol[0][2] + rcol[2] != 0) else bool(dd)))
        # coordinates: x, y, z loop targets of enumerate(self.positions), three consecutive columns
        xyz = None
        if lp is not None and isinstance(lp.iter, ast.Call) and call_name(lp.iter) == "enumerate" and is_self_attr(lp.iter.args[0], "positions") \
                and isinstance(lp.target, ast.Tuple) and isinstance(lp.target.elts[1], ast.Tuple):
            xyz = [e.id for e in lp.target.elts[1].elts]
        wpos = [cc[0] for cc in cols if cc[3] in (xyz or [])]
        local = kwmap.get("positions")
        rcol = rc.get(local)
        ok = xyz is not None and len(wpos) == 3 and wpos == list(range(wpos[0], wpos[0] + 3)) and rcol is not None and rcol[0] == wpos[0] and rcol[1] == wpos[0] + 3 \
            and [cc[3] for cc in cols if cc[0] in wpos] == xyz and rcol[2] == 0
        obs.append(Ob("E1", clause, w, c, ok, "Atoms/%s: x,y,z of self.positions written in columns %s, read from slice %s" % (style, wpos, rcol), slot="atoms-%s:xyz" % style))
        slots = fmt_slots(ast.unparse(c.args[0].left)) if isinstance(c.args[0], ast.BinOp) else None
    # --- term sections: writer (i+1, K_types[i]+1, *(tup+1), label) ; reader types = arr[:,1]-1, tups = arr[:,2:]-1
    gtt = repo.nested(r, "get_types_tups")
    rc = {}
    for n in gtt.own_nodes():
        if isinstance(n, ast.Assign) and isinstance(n.targets[0], ast.Name) and isinstance(n.value, ast.BinOp):
            s = n.value.left
            if isinstance(s, ast.Subscript) and isinstance(s.slice, ast.Tuple) and isinstance(n.value.op, ast.Sub) and const_value(n.value.right) == 1:
                col = s.slice.elts[1]
                rc[n.targets[0].id] = (const_value(col.lower), const_value(col.upper)) if isinstance(col, ast.Slice) else (const_value(col), None)
    rets = [n for n in gtt.own_nodes() if isinstance(n, ast.Return)]
    order = [e.id for e in rets[0].value.elts] if rets and isinstance(rets[0].value, ast.Tuple) else []
    ok_reader = len(order) == 2 and rc.get(order[0]) == (1, None) and rc.get(order[1]) == (2, None)
    obs.append(Ob("E1", clause, gtt, gtt.node, ok_reader, "term reader: type = column 1 minus 1, atoms = columns 2.. minus 1 (%s)" % rc, construct="def get_types_tups", slot="terms:reader",
                  positive=len(order) == 2 and len(rc) >= 1))
    # the reader keeps EVERY row of a term section: a de-duplication (np.unique over rows, set / dict.fromkeys of tuples) keyed on part of the columns drops terms that
    # differ in the others - two torsions on the same four atoms with different types are both part of the file
    for c_ in [x for x in gtt.own_nodes() if isinstance(x, ast.Call) and call_name(x) in ("unique", "fromkeys", "drop_duplicates")]:
        a0 = c_.args[0] if c_.args else None
        partial = a0 is not None and any(isinstance(y, ast.Subscript) and isinstance(y.slice, ast.Tuple) for y in ast.walk(a0))
        obs.append(Ob("E1", clause, gtt, c_, False,
                      "`%s` de-duplicates the rows of a term section%s: a data file may list several terms on the same atoms (multi-term torsions with different types), and every one of them "
                      "has to come back" % (ast.unparse(c_)[:60], " by a SUBSET of the columns" if partial else ""), slot="terms:reader-keeps-rows", positive="robust"))
    for k in KINDS:
        found = None
        for c, s, a in writes:
            if s is not None and a is not None and isinstance(a, ast.Tuple) and any(is_self_attr(x, "%s_types" % k) for x in ast.walk(a)):
                lp = [x for x in w.ancestors(c) if isinstance(x, ast.For)]
                if lp:
                    found = (c, a, lp[0])
        if found is None:
            raise AnalysisError("E1: writer loop for %ss not found" % k)
        c, a, lp = found
        e = a.elts
        # the loop counter starts at `start` (enumerate(xs, start=s), default 0): the id column must be 1 in the first iteration and the type must be read at row 0
        start_, ivar_ = _enum_start(lp)
        a0 = affine(e[0])
        id_ok = a0 is not None and start_ is not None and len(a0) <= 2 and a0.get(ivar_, 0) == 1 and a0.get("", 0) + start_ == 1
        a1 = affine(e[1])
        ty_ok = a1 is not None and a1.get("", 0) == 1 and any("%s_types" % k in t for t in a1)
        if ty_ok and start_ is not None:
            for x_ in ast.walk(e[1]):
                if isinstance(x_, ast.Subscript) and is_self_attr(x_.value, "%s_types" % k):
                    ai = affine(x_.slice)
                    ty_ok = ai is not None and ai.get(ivar_, 0) == 1 and ai.get("", 0) + start_ == 0 and len(ai) <= 2
        st_ok = isinstance(e[2], ast.Starred) and affine(e[2].value) is not None and affine(e[2].value).get("", 0) == 1
        loop_ok = isinstance(lp.iter, ast.Call) and call_name(lp.iter) == "enumerate" and is_self_attr(lp.iter.args[0], "%ss" % k)
        obs.append(Ob("E1", clause, w, c, id_ok and ty_ok and st_ok and loop_ok,
                      "%ss: columns are id+1 (%s), type+1 (%s), atom indices+1 (%s) over enumerate(self.%ss) (%s)" % (k, id_ok, ty_ok, st_ok, k, loop_ok), slot="terms:%s" % k))
        # reader assignment of the pair to the right kind
        asg = [n for n in r.own_nodes() if isinstance(n, ast.Assign) and isinstance(n.value, ast.Call) and call_name(n.value) == "get_types_tups"
               and kind_of(ast.unparse(n.value.args[0])) == k]
        ok = len(asg) == 1 and isinstance(asg[0].targets[0], ast.Tuple)
        if ok:
            t0, t1 = [x.id for x in asg[0].targets[0].elts]
            ok = kwmap.get("%s_types" % k) == t0 and kwmap.get("%ss" % k) == t1
        obs.append(Ob("E1", clause, r, asg[0] if asg else r.node, ok, "%ss: reader passes (types, tuples) of this kind to the constructor's %s_types / %ss" % (k, k, k), slot="terms-reader:%s" % k))
    # --- coefficient sections and masses
    for c, s, a in writes:
        if s == " %d %s\n" and isinstance(a, ast.Tuple):
            lp = [x for x in w.ancestors(c) if isinstance(x, ast.For)][0]
            tab = lp.iter.args[0].attr if isinstance(lp.iter, ast.Call) and call_name(lp.iter) == "enumerate" and is_self_attr(lp.iter.args[0]) else None
            a0 = affine(a.elts[0])
            ok = tab is not None and a0 is not None and a0.get("", 0) == 1 and isinstance(a.elts[1], ast.Name) and a.elts[1].id == lp.target.elts[1].id
            gs = norm_guards(w, c)
            guard = any(pol and tab and tab in ast.unparse(t) for t, pol, kk in gs)
            obs.append(Ob("E1", clause, w, c, ok and guard, "coefficient section over self.%s: 1-based id then the stored text verbatim; section only written when the table is non-empty=%s" % (tab, guard),
                          slot="coeffs:%s" % tab))
    # reader: "%s%s" % (" ".join(tup[1:]), comment_string)
    n_co = 0
    for n in r.own_nodes():
        if isinstance(n, ast.Call) and isinstance(n.func, ast.Attribute) and n.func.attr == "append" and n.args and isinstance(n.args[0], ast.BinOp) \
                and isinstance(n.args[0].op, ast.Mod):
            b = n.args[0]
            tup = b.right
            ok = isinstance(b.left, ast.Constant) and b.left.value == "%s%s" and isinstance(tup, ast.Tuple) and len(tup.elts) == 2 \
                and isinstance(tup.elts[0], ast.Call) and call_name(tup.elts[0]) == "join" and "[1:]" in ast.unparse(tup.elts[0].args[0]) \
                and isinstance(tup.elts[1], ast.Name)
            recv = n.func.value
            if isinstance(recv, ast.Name):
                n_co += 1
                rname = recv.id
            elif isinstance(recv, ast.Subscript) and isinstance(recv.value, ast.Name):
                # one append through a table {section name: list}: it stands for as many branches as the table has sections
                tv = expand(r, recv.value)
                n_co += len(tv.keys) if isinstance(tv, ast.Dict) and all(isinstance(k_, ast.Constant) and isinstance(k_.value, str) and k_.value.endswith("Coeffs") for k_ in tv.keys) else 1
                rname = recv.value.id + "[]"
            else:
                n_co += 1
                rname = "?"
            obs.append(Ob("E1", clause, r, n, ok, "coefficient reader keeps every token after the id and re-attaches the comment", slot="coeffs-reader:%s" % rname))
    floor("E1", "coefficient reader branches", n_co, 5)
    # sibling agreement of the coefficient branches (whatever their spelling): what is appended under `section == "<X> Coeffs"` reads the same
    # per-line locals in every branch - a branch that leaves one out (the comment, the tokens) stores something else than its siblings
    sib = []
    for n in r.own_nodes():
        if isinstance(n, ast.Call) and isinstance(n.func, ast.Attribute) and n.func.attr == "append" and len(n.args) == 1:
            for t, pol, kk in norm_guards(r, n):
                if pol and isinstance(t, ast.Compare) and len(t.ops) == 1 and isinstance(t.ops[0], ast.Eq):
                    sec = [v for v in (const_value(t.left), const_value(t.comparators[0])) if isinstance(v, str) and v.endswith("Coeffs")]
                    if sec:
                        sib.append((sec[0], n, {x.id for x in ast.walk(n.args[0]) if isinstance(x, ast.Name)}))
    if len(sib) >= 3:
        from collections import Counter
        cnt = Counter(nm for _, _, names in sib for nm in names)
        common = {nm for nm, k_ in cnt.items() if k_ >= len(sib) - 1}
        for sec, n, names in sib:
            missing = sorted(common - names)
            obs.append(Ob("E1", clause, r, n, not missing,
                          "reader branch of section %r stores the same per-line values as its sibling coefficient branches%s" % (
                              sec, "" if not missing else " -- it does not read %s, which every other coefficient branch stores (e.g. the trailing comment of the line is dropped for this section only)" % ", ".join(missing)),
                          slot="coeffs-reader-siblings:%s" % sec, positive="robust"))
    # comment canonical form: reader's re-join string equals the separator the writer uses for labels
    sep_r = None
    for n in r.own_nodes():
        if isinstance(n, ast.Assign) and isinstance(n.value, ast.BinOp) and isinstance(n.value.op, ast.Add) and isinstance(n.value.left, ast.Constant) \
                and isinstance(n.value.left.value, str) and "#" in n.value.left.value:
            sep_r = n.value.left.value
    seps_w = set()
    for c, s, a in writes:
        if s is not None and "#" in s:
            m = re.search(r"(\s*# )%s", s)
            if m:
                seps_w.add(m.group(1))
    obs.append(Ob("E1", clause, r, r.node, sep_r is not None and seps_w == {sep_r},
                  "comment separator: reader re-attaches %r, writer writes %s (equal => text is stable after one pass)" % (sep_r, sorted(seps_w)),
                  construct="comment_string = '   # ' + comment", slot="comment-separator"))
    # the re-attached comment is the stripped one
    cs_def = [n for n in r.own_nodes() if isinstance(n, ast.Assign) and isinstance(n.value, ast.BinOp) and isinstance(n.value.op, ast.Add)
              and isinstance(n.value.left, ast.Constant) and isinstance(n.value.left.value, str) and "#" in n.value.left.value and isinstance(n.value.right, ast.Name)]
    if cs_def:
        cname = cs_def[0].value.right
        ds = r.rd.defs_of_use(cname)
        stripped = bool(ds) and all(isinstance(d, ast.Assign) and isinstance(d.value, ast.Call) and call_name(d.value) == "strip" for d in ds)
        obs.append(Ob("E1", clause, r, cs_def[0], stripped,
                      "the comment re-attached to a coefficient line is the stripped comment (no trailing newline inside the stored text)", slot="comment-stripped",
                      positive=bool(ds) and not stripped))
    # header: "N <kind> types" is written exactly when N > 0 - the guard tests the number it writes (the Coeffs sections use the same count)
    for c, s_, a in writes:
        m_ = re.match(r"^%d (atom|bond|angle|dihedral|improper) types\n$", s_ or "")
        if not m_ or a is None:
            continue
        kind_ = m_.group(1)
        want_attr = "num_%s_types" % kind_
        gs_ = [(t_, pol_) for t_, pol_, k_ in norm_guards(w, c)]
        okg = len(gs_) == 1 and gs_[0][1] and isinstance(gs_[0][0], ast.Compare) and is_self_attr(gs_[0][0].left, want_attr) and const_value(gs_[0][0].comparators[0]) == 0 \
            and isinstance(gs_[0][0].ops[0], (ast.Gt, ast.NotEq))
        other_attr = None
        if gs_ and not okg:
            for y in ast.walk(gs_[0][0]):
                if isinstance(y, ast.Attribute) and isinstance(y.value, ast.Name) and y.value.id == "self" and y.attr != want_attr:
                    other_attr = y.attr
        obs.append(Ob("E1", clause, w, c, okg,
                      "header line `N %s types` is written when %s" % (kind_, "self.%s > 0, the number it declares" % want_attr if okg else (
                          "`%s` - a test of self.%s (the TERMS), not of the declared number of types: a kind whose terms are all gone but whose coefficient table remains gets Coeffs lines without a type-count declaration" % (
                              ast.unparse(gs_[0][0]) if gs_ else "?", other_attr) if other_attr else "an unrecognised condition")),
                      slot="header-guard:%s" % kind_, positive=other_attr is not None, undecided=not okg and other_attr is None))
    # whitespace-separated columns: two conversions of one written line are never adjacent (the reader splits on whitespace)
    for c, s_, a in writes:
        if not s_ or "%" not in s_:
            continue
        adj = re.search(r"%[-+ 0#]*\d*(?:\.\d+)?[dfegsEG]%[-+ 0#]*\d*(?:\.\d+)?[dfegsEG]", s_)
        if adj or len(re.findall(r"%[-+ 0#]*\d*(?:\.\d+)?[dfeg]", s_)) >= 2:
            obs.append(Ob("E1", clause, w, c, not adj,
                          "columns of `%s` are %s" % (s_.strip()[:50], "separated by literal white space" if not adj else
                                                      "NOT separated (`%s`): a value that fills its field width fuses with its neighbour (e.g. -123.456789 after 0.410000) and the line cannot be split again" % adj.group(0)),
                          slot="column-separators:%s" % re.sub(r"[^A-Za-z%]+", "", s_)[:24], positive=bool(adj)))
    # per-line state: the label / comment used for a line is (re)defined in the same iteration on every path
    line_loops = [n for n in r.own_nodes() if isinstance(n, ast.For) and any(
        isinstance(x, ast.Call) and isinstance(x.func, ast.Attribute) and x.func.attr == "append" and guard_eq(r, x, "Masses") for x in ast.walk(n))]
    if line_loops:
        lp = line_loops[0]
        uses = []
        for x in ast.walk(lp):
            if isinstance(x, ast.Call) and isinstance(x.func, ast.Attribute) and x.func.attr == "append" and x.args:
                for nm in ast.walk(x.args[0]):
                    if isinstance(nm, ast.Name) and isinstance(nm.ctx, ast.Load) and "comment" in nm.id:
                        uses.append(nm)
        seen_vars = set()
        for u in uses:
            if u.id in seen_vars:
                continue
            seen_vars.add(u.id)
            st = r.stmt_of(u)
            defs_in = [d for d in ast.walk(lp) if isinstance(d, ast.Assign) and any(
                isinstance(t_, ast.Name) and t_.id == u.id or (isinstance(t_, ast.Tuple) and any(isinstance(e_, ast.Name) and e_.id == u.id for e_ in t_.elts)) for t_ in d.targets)]
            fresh = bool(defs_in) and r.cfg.must_pass(lp, defs_in, st)
            obs.append(Ob("E1", clause, r, st, fresh,
                          "per-line value `%s` is %s" % (u.id, "assigned afresh on every path of the iteration that uses it" if fresh else
                                                         "NOT reassigned on every path of an iteration: a line without a '#' inherits the comment of an earlier line (e.g. an unlabelled Masses line takes the previous type's label)"),
                          slot="per-line-state:%s" % u.id, positive=not fresh))
    # label fallback: the labels read from the comments are replaced by the elements exactly when a label is MISSING (None)
    fb = [n for n in r.own_nodes() if isinstance(n, ast.Assign) and len(n.targets) == 1 and isinstance(n.targets[0], ast.Name)
          and "label" in n.targets[0].id and "element" in ast.unparse(n.value) and not isinstance(n.value, (ast.List, ast.ListComp))]
    fb = [n for n in fb if norm_guards(r, n)]
    if fb:
        lab = fb[0].targets[0].id
        gs = [(t, pol) for t, pol, k in norm_guards(r, fb[0]) if lab in ast.unparse(t)]
        if gs:
            t, pol = gs[-1]
            txt = ast.unparse(t)
            none_test = any(isinstance(x, ast.Constant) and x.value is None for x in ast.walk(t))
            truthy = (not none_test) and any(isinstance(x, ast.Call) and call_name(x) in ("all", "any") for x in ast.walk(t)) or \
                (isinstance(t, ast.Name) and t.id == lab)
            # decided on representative label lists: the fallback must run exactly when SOME label is missing (None); '' is a label
            from .common import eval_small, Undecidable
            sem_l = None
            try:
                badl = []
                for labs in (("C", "H"), ("C", None), (None, "H"), (None, None), ("", "H")):
                    taken = all(bool(eval_small(t_, {lab: labs})) == p_ for t_, p_ in gs)
                    if taken != any(x is None for x in labs):
                        badl.append(labs)
                sem_l = (not badl, badl[:1])
            except Undecidable:
                sem_l = None
            if sem_l is not None and not none_test or (sem_l is not None and not sem_l[0]):
                okl, exl = sem_l
                obs.append(Ob("E1", clause, r, fb[0], okl,
                              "type labels fall back to the elements exactly when some label is missing%s" % ("" if okl else ": WRONG for the labels %r (%s)" % (
                                  list(exl[0]), "a partially labelled Masses section keeps None labels, which cannot be written back" if any(x is None for x in exl[0]) else "a complete set of labels is replaced")),
                              slot="label-fallback-test", positive="robust" if not okl else False))
            else:
              obs.append(Ob("E1", clause, r, fb[0], none_test,
                          "type labels fall back to the elements when `%s` is %s: %s" % (txt[:60], pol, "a test for a missing (None) label" if none_test else (
                              "a TRUTH-VALUE test - an empty label (written as `# ` and read back as '') counts as missing, and ALL labels are then replaced by guessed elements"
                              if truthy else "not recognisably a test for missing labels")),
                          slot="label-fallback-test", positive=truthy, undecided=not truthy))
    # at most one '#': a single split into (line, comment)
    sp = [n for n in r.own_nodes() if isinstance(n, ast.Assign) and isinstance(n.targets[0], ast.Tuple) and isinstance(n.value, ast.Call)
          and call_name(n.value) == "split" and n.value.args and const_value(n.value.args[0]) == "#"]
    obs.append(Ob("E1", clause, r, sp[0] if sp else r.node, len(sp) == 1 and len(sp[0].targets[0].elts) == 2, "a line is split once into text and comment", slot="comment-split"))
    # masses: writer (i+1, m, label) over enumerate(self.atom_type_masses); reader masses.append(tup[1]); labels from the comment
    mw = [(c, a) for c, s, a in writes if s is not None and a is not None and isinstance(a, ast.Tuple) and any(
        isinstance(x, ast.For) and is_self_attr(getattr(x.iter, "args", [None])[0] if isinstance(x.iter, ast.Call) else None, "atom_type_masses") for x in w.ancestors(c))]
    ok = len(mw) == 1 and isinstance(mw[0][1].elts[1], ast.Name)
    if ok:
        mlp = [x for x in w.ancestors(mw[0][0]) if isinstance(x, ast.For)][0]
        start_, ivar_ = _enum_start(mlp)
        a0 = affine(mw[0][1].elts[0])
        ok = start_ is not None and a0 is not None and a0.get(ivar_, 0) == 1 and a0.get("", 0) + start_ == 1
    obs.append(Ob("E1", clause, w, mw[0][0] if mw else w.node, ok, "Masses: 1-based type id, mass, label comment over enumerate(self.atom_type_masses)", slot="masses:writer"))
    mr = [n for n in r.own_nodes() if isinstance(n, ast.Call) and isinstance(n.func, ast.Attribute) and n.func.attr == "append" and n.args
          and isinstance(n.args[0], ast.Subscript) and const_value(n.args[0].slice) == 1 and guard_eq(r, n, "Masses")]
    obs.append(Ob("E1", clause, r, mr[0] if mr else r.node, len(mr) == 1, "Masses: reader takes column 1 as the mass", slot="masses:reader"))
    # --- box and tilt
    tilt_w = None
    for c, s, a in writes:
        if s is not None and "xy xz yz" in s and isinstance(a, ast.Tuple):
            tilt_w = [tuple(const_value(i) for i in e.slice.elts) if isinstance(e, ast.Subscript) and isinstance(e.slice, ast.Tuple) else None for e in a.elts]
            tilt_c = c
    names = None
    for n in r.own_nodes():
        if isinstance(n, ast.Assign) and isinstance(n.targets[0], ast.Tuple) and len(n.targets[0].elts) == 3 and any(
                pol and "xy xz yz" in ast.unparse(t) for t, pol, k in norm_guards(r, n)):
            names = [e.id for e in n.targets[0].elts]
    mat = None
    for n in r.own_nodes():
        if isinstance(n, ast.Call) and call_name(n) == "array" and n.args and isinstance(n.args[0], ast.List) and len(n.args[0].elts) == 3 \
                and all(isinstance(row, ast.List) and len(row.elts) == 3 for row in n.args[0].elts):
            mat = [[ast.unparse(e) for e in row.elts] for row in n.args[0].elts]
    ok = False
    detail = "tilt writer/reader not recognised"
    if tilt_w and names and mat:
        where = []
        for nm in names:
            pos = [(i, j) for i in range(3) for j in range(3) if mat[i][j] == nm]
            where.append(pos[0] if len(pos) == 1 else None)
        ok = where == tilt_w and tilt_w == [(1, 0), (2, 0), (2, 1)]
        detail = "tilt factors xy,xz,yz are written from cell entries %s and read back into entries %s" % (tilt_w, where)
        upper_zero = all(mat[i][j] == "0" for (i, j) in ((0, 1), (0, 2), (1, 2)))
        diag_names = [mat[i][i] for i in range(3)]
        ok = ok and upper_zero
        detail += "; upper triangle zero=%s; diagonal=%s" % (upper_zero, diag_names)
    obs.append(Ob("E1", clause, w, tilt_c if tilt_w else w.node, ok, detail, slot="tilt"))
    # writer side of the triclinic decision: the `xy xz yz` line is written exactly when some tilt factor (lower off-diagonal entry) is non-zero.  The path
    # condition of the write is evaluated over the 27 sign patterns of cell[1,0], cell[2,0], cell[2,1] (upper triangle zero - anything else is refused before),
    # with cell_is_orthorhombic() standing for "all off-diagonal entries are zero".
    tw_calls = [c for c, s_, a in writes if s_ is not None and "xy xz yz" in s_]
    if len(tw_calls) == 1:
        import itertools as _it
        from .common import eval_small, Undecidable

        class _Abs(ast.NodeTransformer):
            def visit_Subscript(self, n):
                if is_self_attr(n.value, "cell") and isinstance(n.slice, ast.Tuple) and len(n.slice.elts) == 2 and all(isinstance(const_value(x), int) for x in n.slice.elts):
                    return ast.copy_location(ast.Name(id="c_%d_%d" % (const_value(n.slice.elts[0]), const_value(n.slice.elts[1])), ctx=ast.Load()), n)
                return self.generic_visit(n)

            def visit_Call(self, n):
                if isinstance(n.func, ast.Attribute) and n.func.attr == "cell_is_orthorhombic" and not n.args:
                    return ast.copy_location(ast.Name(id="ORTHO", ctx=ast.Load()), n)
                return self.generic_visit(n)

            def visit_Attribute(self, n):
                if n.attr == "shape" and is_self_attr(n.value, "cell"):
                    return ast.copy_location(ast.Tuple(elts=[ast.Constant(3), ast.Constant(3)], ctx=ast.Load()), n)
                if is_self_attr(n, "cell"):
                    return ast.copy_location(ast.Name(id="CELL", ctx=ast.Load()), n)   # the cell object itself (tested against None)
                return self.generic_visit(n)
        gsw = []
        for t, pol, k in norm_guards(w, tw_calls[0]):
            te = expand(w, t)
            if any(is_self_attr(x, "cell") for x in ast.walk(te)) or "cell_is_orthorhombic" in ast.unparse(te):
                import copy as _copy
                gsw.append((_Abs().visit(_copy.deepcopy(te)), pol))
        verdict_w, ex_w, und_w = None, None, None
        try:
            if not gsw:
                raise Undecidable("the tilt line is written unconditionally")
            wrong_w = []
            for vals in _it.product((-2.5, 0.0, 1.5), repeat=3):
                env_ = {"c_1_0": vals[0], "c_2_0": vals[1], "c_2_1": vals[2], "c_0_1": 0.0, "c_0_2": 0.0, "c_1_2": 0.0, "c_0_0": 10.0, "c_1_1": 11.0, "c_2_2": 12.0,
                        "ORTHO": all(v == 0 for v in vals), "CELL": ("cell",)}
                taken = all(bool(eval_small(t, env_)) == pol for t, pol in gsw)
                if taken != any(v != 0 for v in vals):
                    wrong_w.append(dict(zip(("xy", "xz", "yz"), vals)))
            verdict_w, ex_w = not wrong_w, (wrong_w[0] if wrong_w else None)
            n_wrong = len(wrong_w)
        except Undecidable as e_:
            und_w = str(e_)
        if verdict_w is None:
            obs.append(Ob("E1", clause, w, tw_calls[0], False, "writer: the condition under which the tilt line is written is outside the table language (%s)" % und_w,
                          slot="tilt-written-table", undecided=True))
        else:
            obs.append(Ob("E1", clause, w, tw_calls[0], verdict_w,
                          "writer: over the 27 sign patterns of the tilt factors the `xy xz yz` line is written %s" % (
                              "exactly when some factor is non-zero" if verdict_w else
                              "WRONGLY for %d patterns, e.g. %s %s" % (n_wrong, ex_w, "gets NO tilt line: the file describes an orthorhombic box and the cell is read back without its tilt"
                                                                      if any(v != 0 for v in ex_w.values()) else "gets a tilt line")),
                          slot="tilt-written-table", positive="robust" if not verdict_w else False))
    # the triclinic decision: the tilted matrix is built exactly when ANY of the three tilt factors is non-zero, whatever their signs.  Decided by
    # evaluating the path condition of the statement that builds the tilted matrix over the sign domain {-, 0, +}^3 (27 combinations; the factors are
    # touched only through comparisons with constants, so three representatives per factor decide every test), with the box lengths positive.
    if names and mat:
        import itertools as _it
        tri_call = None
        for n in r.own_nodes():
            if isinstance(n, ast.Call) and call_name(n) == "array" and n.args and isinstance(n.args[0], ast.List) and len(n.args[0].elts) == 3 \
                    and any(isinstance(x, ast.Name) and x.id in names for x in ast.walk(n)):
                tri_call = n
        diag_names_ = {mat[i][i] for i in range(3)}

        class _Und(Exception):
            pass

        def _ev(e, env, depth=0):
            if depth > 6:
                raise _Und("depth")
            if isinstance(e, ast.Constant) and isinstance(e.value, (int, float, bool)):
                return e.value
            if isinstance(e, ast.Name):
                if e.id in env:
                    return env[e.id]
                if e.id in diag_names_:
                    return 1.0
                if r.stmt_of(e) is not None:
                    uv = r.rd.unique_value(e)
                    if uv is not None:
                        return _ev(uv[1], env, depth + 1)
                raise _Und(e.id)
            if isinstance(e, ast.UnaryOp):
                v = _ev(e.operand, env, depth)
                if isinstance(e.op, ast.Not):
                    return not v
                if isinstance(e.op, ast.USub):
                    return -v
                raise _Und("unary")
            if isinstance(e, ast.BoolOp):
                vals = [_ev(v, env, depth) for v in e.values]
                return all(vals) if isinstance(e.op, ast.And) else any(vals)
            if isinstance(e, ast.Compare):
                left = _ev(e.left, env, depth)
                for op, c in zip(e.ops, e.comparators):
                    right = _ev(c, env, depth)
                    fn_ = {ast.Eq: lambda x, y: x == y, ast.NotEq: lambda x, y: x != y, ast.Lt: lambda x, y: x < y, ast.LtE: lambda x, y: x <= y,
                           ast.Gt: lambda x, y: x > y, ast.GtE: lambda x, y: x >= y}.get(type(op))
                    if fn_ is None:
                        raise _Und("operator")
                    if not fn_(left, right):
                        return False
                    left = right
                return True
            if isinstance(e, ast.Call) and call_name(e) in ("abs", "fabs", "float") and len(e.args) == 1:
                v = _ev(e.args[0], env, depth)
                return abs(v) if call_name(e) != "float" else float(v)
            if isinstance(e, ast.Call) and call_name(e) in ("any", "all") and len(e.args) == 1 and isinstance(e.args[0], (ast.List, ast.Tuple)):
                vals = [_ev(v, env, depth) for v in e.args[0].elts]
                return any(vals) if call_name(e) == "any" else all(vals)
            raise _Und(type(e).__name__)
        if tri_call is not None:
            tri_stmt = r.stmt_of(tri_call)
            gs_ = norm_guards(r, tri_stmt)
            gs_ = [(t, pol) for t, pol, k in gs_ if any(isinstance(x, ast.Name) and (x.id in names or x.id in diag_names_ or True) for x in ast.walk(t))
                   and "xy xz yz" not in ast.unparse(t)]
            # only the guards inside the cell-construction part: those that mention a tilt factor, a box length, or a local computed from them
            def _relevant(t):
                for x in ast.walk(t):
                    if isinstance(x, ast.Name):
                        if x.id in names or x.id in diag_names_:
                            return True
                        if r.stmt_of(x) is not None:
                            uv = r.rd.unique_value(x)
                            if uv is not None and any(isinstance(y, ast.Name) and (y.id in names or y.id in diag_names_) for y in ast.walk(uv[1])):
                                return True
                return False
            gs_ = [(t, pol) for t, pol in gs_ if _relevant(t)]
            wrong, und = [], None
            examined = {x.id for t, pol in gs_ for x in ast.walk(expand(r, t)) if isinstance(x, ast.Name) and x.id in names}
            try:
                if not gs_:
                    raise _Und("the tilted matrix is built unconditionally")
                for vals in _it.product((-2.5, 0.0, 1.5), repeat=3):
                    env = dict(zip(names, vals))
                    taken = all(bool(_ev(t, env)) == pol for t, pol in gs_)
                    if taken != any(v != 0 for v in vals):
                        wrong.append(env)
            except _Und as e_:
                und = str(e_)
            if und is not None:
                obs.append(Ob("E1", clause, r, tri_stmt, False, "triclinic decision: the condition under which the tilted matrix is built is outside the table language (%s)" % und,
                              slot="tilt-decision-table", undecided=True))
            else:
                ex = wrong[0] if wrong else None
                obs.append(Ob("E1", clause, r, tri_stmt, not wrong,
                              "triclinic decision over the 27 sign patterns of (%s): %s" % (", ".join(names), "the tilted matrix is built exactly when any factor is non-zero" if not wrong else
                                                                                         "WRONG for %d patterns, e.g. %s is read back as %s" % (len(wrong), ex, "orthorhombic (the tilt is dropped)" if any(v != 0 for v in ex.values()) else "triclinic")),
                              slot="tilt-decision-table", positive="robust"))
                obs.append(Ob("E1", clause, r, tri_stmt, examined == set(names) or bool(wrong),
                              "the decision examines all three tilt factors %s (examined: %s)" % (names, sorted(examined)), slot="tilt-decision", positive=examined < set(names)))
    # lo/hi: writer zip([0,0,0], np.diag(cell)); reader hi - lo
    def _float_sub(e):
        return e.args[0] if isinstance(e, ast.Call) and call_name(e) == "float" and e.args and isinstance(e.args[0], ast.Subscript) else None
    lohi = []
    for n in r.own_nodes():
        if isinstance(n, ast.Assign) and isinstance(n.value, ast.BinOp) and isinstance(n.value.op, ast.Sub):
            a, b = _float_sub(n.value.left), _float_sub(n.value.right)
            if a is not None and b is not None and ast.unparse(a.value) == ast.unparse(b.value) and const_value(a.slice) == 1 and const_value(b.slice) == 0:
                lohi.append(n)
    obs.append(Ob("E1", clause, r, lohi[0] if lohi else r.node, len(lohi) == 3, "box lengths are read as hi - lo on the three axes (%d found)" % len(lohi), slot="box:reader"))
    zw = [n for n in w.own_nodes() if isinstance(n, ast.Assign) and isinstance(n.value, ast.Call) and call_name(n.value) == "zip" and len(n.value.args) == 2]
    ok = len(zw) == 1 and ast.unparse(expand(w, zw[0].value.args[0])) in ("[0, 0, 0]", "(0, 0, 0)") and "np.diag(self.cell)" in ast.unparse(expand(w, zw[0].value.args[1]))
    obs.append(Ob("E1", clause, w, zw[0] if zw else w.node, ok, "box is written as lo=0, hi=cell diagonal per axis", slot="box:writer"))
    # count lines
    for c, s, a in writes:
        if s is None or a is None:
            continue
        m = re.match(r"^%d (atoms|bonds|angles|dihedrals|impropers)\n$", s)
        if m:
            what = m.group(1)[:-1]
            ok = isinstance(a, ast.Call) and call_name(a) == "len" and is_self_attr(a.args[0]) and a.args[0].attr in ("%s_types" % what, "%ss" % what, "positions")
            obs.append(Ob("E1", clause, w, c, ok, "count line `%s` is computed from arrays of its own kind (%s)" % (s.strip(), ast.unparse(a)), slot="count:%s" % what))
        m = re.match(r"^%d (atom|bond|angle|dihedral|improper) types\n$", s)
        if m:
            what = m.group(1)
            ok = is_self_attr(a, "num_%s_types" % what)
            obs.append(Ob("E1", clause, w, c, ok, "type count line `%s` uses self.num_%s_types" % (s.strip(), what), slot="typecount:%s" % what))
    return obs


def E_dispatch(repo, clause):
    obs = []
    routines = {"load": {"lmpdat": "load_lmpdat", "cml": "load_cml", "cif": "load_p1_cif"},
                "save": {"lmpdat": "save_lmpdat", "cif": "save_p1_cif", "mol": "save_raspa_mol"}}
    for which, table in routines.items():
        fn = repo.fn("Atoms.%s" % which)
        for ft, routine in table.items():
            calls = [c for c in calls_in(fn) if isinstance(c.func, ast.Attribute) and c.func.attr == routine]
            ok = False
            detail = "no call of %s" % routine
            if len(calls) == 1:
                c = calls[0]
                gs = norm_guards(fn, c)
                eq = guard_eq(fn, c, ft)
                if not eq:
                    # decided on representatives: the routine is reached for exactly this file type (fall-through after a refusal of unknown types, `in` tests, ...)
                    from .common import eval_small, Undecidable
                    fgs = [(expand(fn, t_), p_) for t_, p_, k_ in gs if any(isinstance(y, ast.Name) and y.id == "filetype" for y in ast.walk(expand(fn, t_)))]
                    if fgs:
                        try:
                            reached = {v for v in ("lmpdat", "cml", "cif", "mol", "xyz", "") if all(bool(eval_small(t_, {"filetype": v})) == p_ for t_, p_ in fgs)}
                            eq = reached == {ft}
                        except Undecidable:
                            pass
                withs = [a for a in fn.ancestors(c) if isinstance(a, ast.With)]
                mode_ok = True
                src_ok = True
                if withs:
                    ctx = withs[0].items[0].context_expr
                    mode = kwarg(ctx, "mode") if isinstance(ctx, ast.Call) else None
                    mode_ok = (const_value(mode) == "w") if which == "save" else (mode is None or const_value(mode) == "r")
                    asname = withs[0].items[0].optional_vars
                    src_ok = isinstance(asname, ast.Name) and c.args and isinstance(c.args[0], ast.Name) and c.args[0].id == asname.id \
                        and isinstance(ctx, ast.Call) and call_name(ctx) == "use_or_open"
                else:
                    src_ok = which == "load" and c.args and isinstance(c.args[0], ast.BoolOp)   # fd or path
                ok = eq and mode_ok and src_ok
                detail = "filetype '%s' -> %s; selected by equality test=%s, file mode ok=%s, handle passed on=%s" % (ft, routine, eq, mode_ok, src_ok)
            obs.append(Ob("E5", clause, fn, calls[0] if calls else fn.node, ok, detail, construct=None if calls else "%s(...)" % routine, slot="%s:%s" % (which, ft)))
        # extension-derived type strips the dot
        strip = any(isinstance(n, ast.Subscript) and isinstance(n.slice, ast.Slice) and const_value(n.slice.lower) == 1 and n.slice.upper is None
                    for n in fn.own_nodes())
        # which dot: the extension is what follows the LAST dot (os.path.splitext / rsplit / rpartition / Path.suffix); partition / split / find / index take the FIRST
        first_dot = [c_ for c_ in ast.walk(fn.node) if isinstance(c_, ast.Call) and isinstance(c_.func, ast.Attribute) and c_.func.attr in ("partition", "split", "find", "index")
                     and c_.args and const_value(c_.args[0]) == "." and not (c_.func.attr == "split" and isinstance(fn.parents.get(c_), ast.Subscript)
                                                                            and const_value(fn.parents.get(c_).slice) == -1)]
        first_dot += [s_ for s_ in ast.walk(fn.node) if isinstance(s_, ast.Subscript) and isinstance(s_.value, ast.Attribute) and s_.value.attr == "suffixes"
                      and isinstance(const_value(s_.slice), int) and const_value(s_.slice) >= 0]
        if first_dot:
            obs.append(Ob("E5", clause, fn, first_dot[0], False,
                          "the file type is taken from `%s`: what follows the FIRST dot of the name - for `water.v2.lmpdat` that is `v2.lmpdat`, not `lmpdat` (os.path.splitext and the command line use the last dot)" % ast.unparse(first_dot[0])[:50],
                          slot="%s:ext" % which, positive="robust"))
        else:
            obs.append(Ob("E5", clause, fn, fn.node, strip, "type implied by the file extension drops the leading dot", construct="filetype[1:]", slot="%s:ext" % which,
                          undecided=not any(isinstance(c_, ast.Call) and call_name(c_) == "splitext" for c_ in ast.walk(fn.node))))
    # the two dispatchers resolve (file object | path, explicit type | extension) by the SAME prologue: sibling agreement, and each
    # use_or_open call receives (handle, path) in the order of the helper's parameters
    pro = {}
    for which in routines:
        fn = repo.fn("Atoms.%s" % which)
        body = [st for st in fn.node.body if not (isinstance(st, ast.Expr) and isinstance(st.value, ast.Constant))]
        cut = next((i for i, st in enumerate(body) if isinstance(st, ast.If) and any(eq_const(x) is not None and isinstance(eq_const(x)[1], str) and eq_const(x)[1] in routines[which]
                                                                                       for x in ast.walk(st.test) if isinstance(x, ast.Compare))), None)
        if cut is None:
            continue
        pro[which] = (fn, body[:cut])
    if len(pro) == 2:
        (fl, bl), (fs, bs) = pro["load"], pro["save"]
        def alpha(fn_, stmts):
            """dump with parameters and assigned locals renamed in order of first occurrence (alpha-equivalence)"""
            import copy as _copy
            names = {}
            for p_ in fn_.params:
                names.setdefault(p_, "v%d" % len(names))
            mod = ast.Module(body=[_copy.deepcopy(x) for x in stmts], type_ignores=[])
            for x in ast.walk(mod):
                if isinstance(x, ast.Name) and isinstance(x.ctx, ast.Store):
                    names.setdefault(x.id, "v%d" % len(names))
            for x in ast.walk(mod):
                if isinstance(x, ast.Name) and x.id in names:
                    x.id = names[x.id]
            return [ast.dump(x) for x in mod.body]
        from verif_sa.core import skeleton as _skel
        dl_, ds_ = alpha(fl, bl), alpha(fs, bs)
        same = dl_ == ds_
        same_shape = [_skel(x) for x in bl] == [_skel(x) for x in bs]
        first = next((i for i, (a_, b_) in enumerate(zip(dl_, ds_)) if a_ != b_), min(len(dl_), len(ds_)))
        obs.append(Ob("E5", clause, fs, bs[first] if first < len(bs) else fs.node, same,
                      "Atoms.load and Atoms.save resolve their file argument and file type by %s" % (
                          "the same statements (%d)" % len(bl) if same else "DIFFERENT statements: statement #%d is `%s` in load but `%s` in save - one of the two dispatchers is wrong" % (
                              first + 1, ast.unparse(bl[first]).splitlines()[0][:50] if first < len(bl) else "-", ast.unparse(bs[first]).splitlines()[0][:50] if first < len(bs) else "-")),
                      slot="prologue-siblings", positive=not same and same_shape, undecided=not same and not same_shape))
        # the prologue itself: a file object needs an explicit type; a path without type takes its extension
        for which, (fn, bd) in pro.items():
            top = [st for st in bd if isinstance(st, ast.If) and any(isinstance(x, ast.Call) and call_name(x) == "isinstance" for x in ast.walk(st.test))]
            if len(top) != 1:
                continue
            t0 = top[0]
            isi = t0.test
            pos = True
            while isinstance(isi, ast.UnaryOp) and isinstance(isi.op, ast.Not):
                isi, pos = isi.operand, not pos
            args_ok = isinstance(isi, ast.Call) and len(isi.args) == 2 and isinstance(isi.args[0], ast.Name) and isi.args[0].id == fn.params[1]
            fd_branch = t0.body if pos else t0.orelse
            path_branch = t0.orelse if pos else t0.body
            fd_names = [x.targets[0].id for x in fd_branch if isinstance(x, ast.Assign) and isinstance(x.targets[0], ast.Name) and isinstance(x.value, ast.Name) and x.value.id == fn.params[1]]
            path_names = [x.targets[0].id for x in path_branch if isinstance(x, ast.Assign) and isinstance(x.targets[0], ast.Name) and isinstance(x.value, ast.Name) and x.value.id == fn.params[1]]
            # the "otherwise" branch also receives open files that are not text streams (binary handles, BytesIO, tempfile wrappers): they are passed through as they are.
            # A conversion that only a path survives (os.fspath, str, Path) applied there unconditionally turns such a file into a TypeError (or a useless name)
            for x in path_branch:
                if isinstance(x, ast.Assign) and isinstance(x.targets[0], ast.Name) and isinstance(x.value, ast.Call) and call_name(x.value) in ("fspath", "str", "Path", "PurePath", "abspath", "normpath", "fsdecode") \
                        and x.value.args and isinstance(x.value.args[0], ast.Name) and x.value.args[0].id == fn.params[1]:
                    path_names.append(x.targets[0].id)
                    obs.append(Ob("E5", clause, fn, x, False,
                                  "Atoms.%s: `%s` converts EVERY argument that is not a text stream: an open binary file or BytesIO (accepted so far and handed to the format's reader / writer as it is) "
                                  "now fails or is replaced by a name" % (which, ast.unparse(x)[:50]), slot="%s:path-conversion" % which, positive="robust"))
            FD, PATH = (fd_names[0] if fd_names else None), (path_names[0] if path_names else None)
            fd_st = FD is not None
            raise_in_fd = [x for x in ast.walk(ast.Module(body=fd_branch, type_ignores=[])) if isinstance(x, ast.Raise)]
            raise_ok = False
            for x in fd_branch:
                if isinstance(x, ast.If) and any(isinstance(y, ast.Raise) for y in x.body) and is_none_test_any_e(x.test) == "is":
                    raise_ok = True
            ext_ok = False
            for x in path_branch:
                if isinstance(x, ast.If) and is_none_test_any_e(x.test) == "is" and any(isinstance(y, ast.Call) and call_name(y) == "splitext" for y in ast.walk(x)):
                    ext_ok = True
            # the extension may replace the file type only where no explicit type was given
            overwrite = None
            for x in ast.walk(ast.Module(body=path_branch, type_ignores=[])):
                if isinstance(x, ast.Assign) and any(isinstance(t_, ast.Name) and t_.id == "filetype" for t_ in x.targets) or \
                        (isinstance(x, ast.Assign) and any(isinstance(t_, ast.Tuple) and any(isinstance(e_, ast.Name) and e_.id == "filetype" for e_ in t_.elts) for t_ in x.targets)):
                    guarded_ = any(is_none_test_any_e(t_) == "is" and pol_ for t_, pol_, k_ in norm_guards(fn, x))
                    prefers_ext = isinstance(x.value, ast.BoolOp) and isinstance(x.value.op, ast.Or) and not (isinstance(x.value.values[0], ast.Name) and x.value.values[0].id == "filetype")
                    if not guarded_ and (prefers_ext or not isinstance(x.value, ast.BoolOp)) and "filetype" not in [getattr(v_, "id", None) for v_ in ([x.value.values[0]] if isinstance(x.value, ast.BoolOp) else [])]:
                        from verif_sa.dataflow import _assigned_value
                        av_ = _assigned_value(x, "filetype")
                        v_ = av_[1] if av_ else x.value
                        if isinstance(v_, ast.Name) and _may_depend_on(fn, v_, "filetype"):
                            continue  # the stored value is itself computed from the incoming file type (a renamed copy): not an overwrite
                        overwrite = x
            if overwrite is not None:
                obs.append(Ob("E5", clause, fn, overwrite, False,
                              "Atoms.%s: `%s` replaces an EXPLICIT filetype by the file extension (the documented precedence is: explicit type overrides the extension)" % (which, ast.unparse(overwrite)[:60]),
                              slot="%s:explicit-type-wins" % which, positive=True))
            ok_ = args_ok and fd_st and raise_ok and ext_ok
            obs.append(Ob("E5", clause, fn, t0, ok_,
                          "Atoms.%s: isinstance(%s, file) -> handle, explicit type required (raise when None)=%s; otherwise path, extension used when the type is None=%s; isinstance arguments in order=%s" % (
                              which, fn.params[1], fd_st and raise_ok, ext_ok, args_ok), slot="%s:prologue" % which,
                          positive=isinstance(isi, ast.Call) and len(isi.args) == 2 and not args_ok and isinstance(isi.args[1], ast.Name) and isi.args[1].id == fn.params[1],
                          undecided=not (isinstance(isi, ast.Call) and len(isi.args) == 2 and not args_ok and isinstance(isi.args[1], ast.Name) and isi.args[1].id == fn.params[1])))
            for c in [c for c in calls_in(fn) if call_name(c) == "use_or_open"]:
                a_ok = FD is not None and PATH is not None and len(c.args) >= 2 and isinstance(c.args[0], ast.Name) and c.args[0].id == FD and isinstance(c.args[1], ast.Name) and c.args[1].id == PATH
                swapped = FD is not None and PATH is not None and len(c.args) >= 2 and isinstance(c.args[0], ast.Name) and c.args[0].id == PATH and isinstance(c.args[1], ast.Name) and c.args[1].id == FD
                obs.append(Ob("E5", clause, fn, c, a_ok, "use_or_open receives %s" % ("(handle, path)" if a_ok else ("(path, handle): SWAPPED - the path is used as if it were an open file" if swapped else ast.unparse(c)[:50])),
                              slot="%s:use_or_open-args" % which, positive=swapped, undecided=not a_ok and not swapped))
    uo = repo.fn("use_or_open")
    ok = any(isinstance(c, ast.Call) and call_name(c) == "open" and len(c.args) >= 2 and isinstance(c.args[1], ast.Name) and c.args[1].id == "mode"
             for c in ast.walk(uo.node))
    obs.append(Ob("E5", clause, uo, uo.node, ok, "use_or_open opens the path with the requested mode and otherwise yields the given handle", construct="def use_or_open", slot="use_or_open"))
    fhp = uo.params[0] if uo.params else None
    closes = [w_ for w_ in uo.own_nodes() if isinstance(w_, ast.With) and any(isinstance(it.context_expr, ast.Name) and it.context_expr.id == fhp for it in w_.items)] + \
        [c_ for c_ in calls_in(uo) if isinstance(c_.func, ast.Attribute) and c_.func.attr == "close" and isinstance(c_.func.value, ast.Name) and c_.func.value.id == fhp]
    obs.append(Ob("E5", clause, uo, closes[0] if closes else uo.node, not closes,
                  "use_or_open %s" % ("closes only the file it opened itself" if not closes else
                                      "CLOSES the handle it was given (`with %s:` / %s.close()): after Atoms.save(buffer, ...) or Atoms.load(fd, ...) the caller's StringIO / file is closed and a write-read-write round trip through the same handle fails" % (fhp, fhp)),
                  construct=None if closes else "def use_or_open: with open(...)", slot="use_or_open-owner", positive=True))
    return obs


def is_none_test_any_e(x):
    if isinstance(x, ast.Compare) and len(x.ops) == 1 and isinstance(x.comparators[0], ast.Constant) and x.comparators[0].value is None:
        return "isnot" if isinstance(x.ops[0], ast.IsNot) else ("is" if isinstance(x.ops[0], ast.Is) else None)
    return None


# ---- E2: CIF ---------------------------------------------------------------------------------------

CIF_CATEGORIES = ("_atom_site_", "_geom_bond_", "_geom_angle_", "_geom_torsion_", "_cell_", "_symmetry_space_group_name_")


def _cif_tags(fn):
    tags = []
    for n in fn.all_nodes():
        n2 = _fold_label_comprehension(n) if isinstance(n, ast.ListComp) else n
        if n2 is not n:
            for e in n2.elts:
                tags.append((e.value, n))
        elif isinstance(n, ast.Constant) and isinstance(n.value, str) and n.value.startswith("_") and "%" not in n.value:
            tags.append((n.value, n))
    return tags


def _may_depend_on(fn, expr, pname, depth=4):
    """May the value of expr depend on the incoming value of the name pname (through local copies)?"""
    from verif_sa.dataflow import _assigned_value, PARAM
    for n in ast.walk(expr):
        if isinstance(n, ast.Name) and isinstance(n.ctx, ast.Load):
            if n.id == pname:
                return True
            if depth <= 0:
                continue
            try:
                ds = fn.rd.defs_of_use(n)
            except Exception:
                return True
            for d in ds:
                if d == PARAM:
                    continue
                if not isinstance(d, ast.Assign):
                    return True
                av = _assigned_value(d, n.id)
                if av is None or _may_depend_on(fn, av[1], pname, depth - 1):
                    return True
    return False


def _fract_flag_table(r, mod_stmt, dot_stmt):
    """(ok, detail) or None.  The name that guards both the wrap and the cell product, as a function of which coordinate tags the block has."""
    from verif_sa.pe import PE, P
    flags = []
    for s_ in (mod_stmt, dot_stmt):
        f_ = [t.id for t, pol, k in norm_guards(r, s_) if pol and isinstance(t, ast.Name)]
        flags.append(set(f_))
    common_flags = flags[0] & flags[1]
    if len(common_flags) != 1:
        return None
    flag = next(iter(common_flags))
    pe = PE({p: P(p) for p in r.params})
    try:
        pe.run(r.node.body, [])
    except Exception:
        return None
    ft = pe.env.get(flag)
    # the coordinate columns: the local(s) whose term reads block[<tag>] for coordinate tags
    cands = [v for k, v in pe.env.items() if k != flag and isinstance(v, tuple) and ("_atom_site_fract_x" in repr(v) or "_atom_site_cartn_x" in repr(v)) and "sub[]" in repr(v)]
    if ft is None or not cands:
        return None
    coords_t = min(cands, key=lambda v: len(repr(v)))

    class U(Exception):
        pass

    def atom(t):
        if isinstance(t, tuple) and t and t[0] == "call" and t[1] == "has_all_tags":
            txt = repr(t)
            c, f = "_atom_site_cartn_x" in txt, "_atom_site_fract_x" in txt
            if c != f:
                return "C" if c else "F"
        return None

    def val(t, A):
        a = atom(t)
        if a is not None:
            return A[a]
        if not isinstance(t, tuple):
            raise U()
        if t[0] == "const":
            return t[1]
        if t[0] == "not":
            return not val(t[1], A)
        if t[0] == "and":
            return all(val(x, A) for x in t[1:])
        if t[0] == "or":
            return any(val(x, A) for x in t[1:])
        if t[0] in ("phi", "ifexp"):
            return val(t[2] if val(t[1], A) else t[3], A)
        raise U()

    def families(t, A):
        """coordinate tag families still reachable in t once its conditionals are resolved"""
        out = set()
        if not isinstance(t, tuple):
            return out
        if t and t[0] in ("phi", "ifexp") and len(t) == 4:
            try:
                c = val(t[1], A)
            except U:
                return families(t[2], A) | families(t[3], A)
            return families(t[2] if c else t[3], A)
        if t and t[0] == "const" and isinstance(t[1], str):
            if t[1].startswith("_atom_site_fract_"):
                out.add("fract")
            elif t[1].startswith("_atom_site_cartn_"):
                out.add("cart")
            return out
        for x in t:
            out |= families(x, A)
        return out
    try:
        for C in (True, False):
            for F in (True, False):
                if not C and not F:
                    continue
                A = {"C": C, "F": F}
                fam = families(coords_t, A)
                if len(fam) != 1:
                    return None
                fl = bool(val(ft, A))
                if fl != (fam == {"fract"}):
                    return False, "under `%s`, which is %s when the block has %s and the %s columns are the ones read: %s" % (
                        flag, fl, " and ".join(n_ for n_, b_ in (("Cartesian tags", C), ("fractional tags", F)) if b_), next(iter(fam)),
                        "Cartesian coordinates are wrapped modulo 1 and multiplied with the cell" if fl else "fractional coordinates are used as if they were Cartesian")
        return True, "flag agrees with the columns read"
    except U:
        return None


def _cif_number_helper(outer, tf):
    """(ok, detail) for a helper of the form `return float(<regex operation on the argument>)`, or None when it has another form."""
    import re as _re
    rets = [n for n in tf.own_nodes() if isinstance(n, ast.Return)]
    if len(rets) != 1 or not (isinstance(rets[0].value, ast.Call) and call_name(rets[0].value) == "float" and len(rets[0].value.args) == 1):
        return None
    arg = tf.params[0] if tf.params else None
    x = rets[0].value.args[0]

    def pattern_of(e):
        """literal pattern of `re` / a compiled pattern bound once in the helper or the enclosing function"""
        if isinstance(e, ast.Name) and e.id != "re":
            for f_ in (tf, outer):
                ds = [n for n in f_.own_nodes() if isinstance(n, ast.Assign) and len(n.targets) == 1 and isinstance(n.targets[0], ast.Name) and n.targets[0].id == e.id]
                if len(ds) == 1 and isinstance(ds[0].value, ast.Call) and call_name(ds[0].value) == "compile" and ds[0].value.args and isinstance(const_value(ds[0].value.args[0]), str):
                    return const_value(ds[0].value.args[0])
        return None

    def apply(s_):
        # re.sub(pat, repl, s) / compiled.sub(repl, s)
        if isinstance(x, ast.Call) and call_name(x) == "sub" and isinstance(x.func, ast.Attribute):
            base = x.func.value
            if isinstance(base, ast.Name) and base.id == "re" and len(x.args) == 3 and isinstance(const_value(x.args[0]), str) and isinstance(const_value(x.args[1]), str) \
                    and isinstance(x.args[2], ast.Name) and x.args[2].id == arg:
                return _re.sub(const_value(x.args[0]), const_value(x.args[1]), s_)
            pat = pattern_of(base)
            if pat is not None and len(x.args) == 2 and isinstance(const_value(x.args[0]), str) and isinstance(x.args[1], ast.Name) and x.args[1].id == arg:
                return _re.sub(pat, const_value(x.args[0]), s_)
            raise ValueError("sub form")
        # <pattern>.match(s).group(k) / re.match(pat, s).group(k)
        if isinstance(x, ast.Call) and call_name(x) == "group" and isinstance(x.func, ast.Attribute) and isinstance(x.func.value, ast.Call):
            m = x.func.value
            k = const_value(x.args[0]) if x.args else 0
            how = call_name(m)
            if how in ("match", "search", "fullmatch") and isinstance(m.func, ast.Attribute):
                base = m.func.value
                if isinstance(base, ast.Name) and base.id == "re" and len(m.args) == 2 and isinstance(const_value(m.args[0]), str):
                    pat = const_value(m.args[0])
                else:
                    pat = pattern_of(base)
                if pat is None:
                    raise ValueError("pattern not literal")
                mo = getattr(_re, how)(pat, s_)
                if mo is None:
                    raise KeyError("no match")
                return mo.group(k)
        raise ValueError("form")
    reps = [("0.3471", 0.3471), ("0.3471(12)", 0.3471), ("-1.5", -1.5), ("12", 12.0), ("1.2500e+01", 12.5), ("2.5000E-01(3)", 0.25), ("90", 90.0)]
    try:
        for s_, want in reps:
            try:
                got = float(apply(s_))
            except KeyError:
                return False, "the pattern does not match the numeral %r at all" % s_
            if abs(got - want) > 1e-12:
                return False, "the numeral %r is read as %r, not %r: %s" % (s_, got, want, "the exponent is cut off (values in scientific notation lose their magnitude)" if "e" in s_.lower() else
                                                                              "the standard uncertainty is not removed correctly")
        return True, "plain numerals, numerals with a parenthesised standard uncertainty, signs and exponents are all read with their value (%d representatives)" % len(reps)
    except ValueError:
        return None
    except Exception:
        return None


def E2_cif_tags(repo, clause):
    obs = []
    w = repo.fn("Atoms.save_p1_cif")
    r = repo.fn("Atoms.load_p1_cif")
    wt = _cif_tags(w)
    rt = {t.lower() for t, _ in _cif_tags(r)}
    # tag templates the reader formats at run time ("_geom_bond_atom_site_label_%d" handed to a helper): a written tag that such a template
    # can produce is not decided as missing
    templates = []
    for x in r.all_nodes():
        if isinstance(x, ast.Constant) and isinstance(x.value, str) and x.value.startswith("_") and ("%" in x.value or "{" in x.value):
            templates.append(re.compile("^" + re.sub(r"%[0-9]*[ds]|\\\{[^}]*\\\}", ".+", re.escape(x.value.lower())) + "$"))
        elif isinstance(x, ast.JoinedStr) and x.values and isinstance(x.values[0], ast.Constant) and str(x.values[0].value).startswith("_"):
            templates.append(re.compile("^" + "".join(re.escape(str(v.value).lower()) if isinstance(v, ast.Constant) else ".+" for v in x.values) + "$"))
    n = 0
    for t, node in wt:
        if not t.startswith(CIF_CATEGORIES):
            continue
        n += 1
        ok = t.lower() in rt
        maybe = not ok and any(p_.match(t.lower()) for p_ in templates)
        obs.append(Ob("E2", clause, w, node, ok, "tag %s written by save_p1_cif is %s by load_p1_cif" % (
            t, "consumed" if ok else ("possibly produced by a tag template of the reader that this rule does not fold" if maybe else "NOT consumed")),
            construct=t, slot="tag:%s" % t.lower(), positive=not maybe, undecided=maybe, depends=(r,)))
    floor("E2", "CIF tags written", n, 20)
    # PyCifRW returns loop keys lower-cased: tags that are subtracted from GetLoop(...).keys() must be lower-case
    handled_lists = []
    for n_ in r.own_nodes():
        if isinstance(n_, ast.BinOp) and isinstance(n_.op, ast.Sub) and any(isinstance(c_, ast.Call) and call_name(c_) == "keys" for c_ in ast.walk(n_.left)):
            he = expand(r, n_.right)
            for s_ in ast.walk(he):
                if isinstance(s_, ast.Constant) and isinstance(s_.value, str) and s_.value.startswith("_"):
                    handled_lists.append(s_.value)
            for nm_ in [x.id for x in ast.walk(he) if isinstance(x, ast.Name)]:
                for d_ in r.own_nodes():
                    if isinstance(d_, ast.Assign) and isinstance(d_.targets[0], ast.Name) and d_.targets[0].id == nm_:
                        for s_ in ast.walk(_fold_label_comprehension(d_.value) if isinstance(d_.value, ast.ListComp) else d_.value):
                            if isinstance(s_, ast.Constant) and isinstance(s_.value, str) and s_.value.startswith("_"):
                                handled_lists.append(s_.value)
    # extra columns = loop keys that are not EXACTLY one of the handled tags; a prefix test also swallows extra columns whose names merely begin like a handled tag
    for c_ in calls_in(r):
        if isinstance(c_.func, ast.Attribute) and c_.func.attr in ("startswith", "endswith") and c_.args:
            a0 = expand(r, c_.args[0])
            lits = [x_.value for x_ in ast.walk(a0) if isinstance(x_, ast.Constant) and isinstance(x_.value, str)]
            if lits and all(t.startswith(("_atom_site", "_geom_")) for t in lits):
                obs.append(Ob("E2", clause, r, c_, False,
                              "handled tags are recognised by `%s` - a PREFIX test: an extra column such as `_atom_site_label_component_0` or `_atom_site_fract_x_esd` begins like a handled tag and is "
                              "silently dropped on reading (the extra columns are the loop keys MINUS the exact handled tags)" % ast.unparse(c_)[:60],
                              slot="handled-tags-exact", positive="robust"))
    # extra columns keep the order of the loop: the key list of a loop may go through an ORDERED difference only; set(...) / sorted(...) of it loses the file order
    for f_ in [r] + [f2 for f2 in repo.all_fns() if f2.outer is r]:
        for c_ in calls_in(f_):
            if call_name(c_) == "keys" and isinstance(c_.func, ast.Attribute) and isinstance(c_.func.value, ast.Call) and call_name(c_.func.value) == "GetLoop":
                wrap = f_.parents.get(c_)
                if isinstance(wrap, ast.Call) and isinstance(wrap.func, ast.Name) and wrap.func.id in ("set", "frozenset") and wrap.args and wrap.args[0] is c_:
                    obs.append(Ob("E2", clause, f_, wrap, False,
                                  "the tags of a loop go through `%s`: a plain set forgets the order of the columns in the file, so extra per-atom / per-term columns come back in hash or "
                                  "alphabetical order and the re-written file differs (the ordered difference OrderedSet(keys) - handled keeps it)" % ast.unparse(wrap)[:50],
                                  slot="extra-columns-order", positive="robust"))
    # tag presence: the CIF library reports the keys of a block in LOWER case and its has_key() folds case; a hand-written membership test against block.keys()
    # (`in`, issubset, set difference) is case-sensitive, so a tag spelled with capitals (_symmetry_space_group_name_H-M) is never found
    def _mixed_literals(fn_, e_):
        try:
            v_ = expand(fn_, e_)
        except Exception:
            v_ = e_
        return sorted({x.value for x in ast.walk(v_) if isinstance(x, ast.Constant) and isinstance(x.value, str) and x.value.startswith("_") and x.value != x.value.lower()})
    nested_ = [f2 for f2 in repo.all_fns() if f2.outer is r]
    for f_ in [r] + nested_:
        for kc in [c_ for c_ in calls_in(f_) if call_name(c_) == "keys" and isinstance(c_.func, ast.Attribute) and isinstance(c_.func.value, ast.Name) and not c_.args]:
            if isinstance(f_.parents.get(kc), ast.Call) and call_name(f_.parents.get(kc)) == "OrderedSet":
                continue
            holder = f_.parents.get(kc)
            # climb to the expression the key view takes part in
            other = None
            if isinstance(holder, ast.Compare) and len(holder.ops) == 1 and isinstance(holder.ops[0], (ast.In, ast.NotIn)) and holder.comparators[0] is kc:
                other = holder.left
            elif isinstance(holder, ast.Call) and call_name(holder) in ("issubset", "issuperset", "isdisjoint", "difference", "intersection") and isinstance(holder.func, ast.Attribute):
                other = holder.func.value if any(a_ is kc for a_ in holder.args) else (holder.args[0] if holder.args else None)
            elif isinstance(holder, ast.Call) and call_name(holder) in ("set", "frozenset", "list") and isinstance(f_.parents.get(holder), (ast.BinOp, ast.Compare, ast.Call)):
                hp = f_.parents.get(holder)
                if isinstance(hp, ast.BinOp):
                    other = hp.left if hp.right is holder else hp.right
                elif isinstance(hp, ast.Compare):
                    other = hp.left if hp.comparators[0] is holder else hp.comparators[0]
                elif isinstance(hp, ast.Call) and isinstance(hp.func, ast.Attribute):
                    other = hp.func.value if any(a_ is holder for a_ in hp.args) else (hp.args[0] if hp.args else None)
            if other is None:
                continue
            tags_direct = _mixed_literals(f_, other)
            via_param = sorted({x.id for x in ast.walk(other) if isinstance(x, ast.Name) and x.id in f_.params})
            found = [(f_, kc, t_) for t_ in tags_direct]
            if via_param and f_ is not r:
                for cs in [c_ for c_ in calls_in(r) if isinstance(c_.func, ast.Name) and c_.func.id == f_.name]:
                    for pn in via_param:
                        a_ = get_arg(cs, f_.params, pn)
                        if a_ is not None:
                            found += [(r, cs, t_) for t_ in _mixed_literals(r, a_)]
            for fn2, node2, tag2 in found:
                obs.append(Ob("E2", clause, fn2, node2, False,
                              "the presence of `%s` is decided by a case-sensitive membership test against %s (`%s`), but the CIF library reports keys in lower case (its has_key() folds "
                              "case): this tag is never found, so %s" % (tag2, ast.unparse(kc), ast.unparse(holder)[:50],
                                                                       "a declared space group other than P1 is silently read as P1" if "space_group" in tag2 else "the data under it is ignored"),
                              slot="tag-presence-case:%s" % tag2, positive="robust"))
    mixed = sorted({t for t in handled_lists if t != t.lower()})
    obs.append(Ob("E2", clause, r, r.node, bool(handled_lists) and not mixed,
                  "tags removed from the loop's key list are spelled in lower case, as the CIF library reports keys (%d tags; mixed-case: %s)" % (len(set(handled_lists)), mixed or "none"),
                  construct="OrderedSet(block.GetLoop(...).keys()) - handled tags", slot="handled-tags-lowercase", positive=bool(mixed)))
    # cell lengths: a, b, c are the norms of ROWS 0, 1, 2 of the cell
    cab = repo.fn("Atoms.cell_abc_alpha_beta_gamma")
    rets_ = [x for x in cab.own_nodes() if isinstance(x, ast.Return) and isinstance(x.value, ast.Tuple) and len(x.value.elts) == 6]
    if len(rets_) == 1:
        for k_, el_ in enumerate(rets_[0].value.elts[:3]):
            ee_ = expand(cab, el_)
            verdict = None
            why_ = ast.unparse(ee_)[:60]
            subs_ = [y for y in ast.walk(ee_) if isinstance(y, ast.Subscript) and const_value(y.slice) is not None]
            norms_axis = [y for y in ast.walk(ee_) if isinstance(y, ast.Call) and call_name(y) == "norm" and kwarg(y, "axis") is not None]
            if norms_axis:
                axv_ = const_value(kwarg(norms_axis[0], "axis"))
                verdict = axv_ in (1, -1) and isinstance(ee_, ast.Subscript) and const_value(ee_.slice) == k_
                why_ += " (norms along axis %s: %s)" % (axv_, "rows" if axv_ in (1, -1) else "COLUMNS - the lattice vectors are the rows, so lengths are wrong for every triclinic cell")
            elif subs_ and all(const_value(y.slice) == k_ for y in subs_ if ast.unparse(y.value).endswith("cell") or isinstance(y.value, ast.Name)) and \
                    any(isinstance(y, ast.Call) and call_name(y) in ("sqrt", "norm") for y in ast.walk(ee_)):
                verdict = True
            elif subs_ and any(isinstance(y, ast.Call) and call_name(y) in ("sqrt", "norm") for y in ast.walk(ee_)):
                verdict = False
                why_ += " (uses row %s)" % sorted({const_value(y.slice) for y in subs_})
            obs.append(Ob("E2", clause, cab, el_, bool(verdict), "cell length %s = norm of lattice row %d: %s" % ("abc"[k_], k_, why_),
                          slot="cell-length:%s" % "abc"[k_], positive=verdict is False, undecided=verdict is None))
    # cell angles: each angle is between the two rows it names, normalised by the norms of the same two rows
    accs = [c_ for c_ in calls_in(cab) if call_name(c_) == "arccos"]
    want_pairs = [(1, 2), (0, 2), (0, 1)]
    # the arccos that feeds return slot 3 + k (alpha, beta, gamma), whatever the order of the statements
    if len(accs) == 3 and len(rets_) == 1:
        by_slot = []
        for el_ in rets_[0].value.elts[3:]:
            ee_ = expand(cab, el_)
            hit = [y for y in ast.walk(ee_) if isinstance(y, ast.Call) and call_name(y) == "arccos"]
            by_slot.append(hit[0] if len(hit) == 1 else None)
        if all(x is not None for x in by_slot):
            accs = by_slot
    if len(accs) == 1 and len(rets_) == 0:
        # all three angles from ONE expression evaluated over a table of vector pairs: [angle(c[i], c[j]) for i, j in pairs], returned as (*lengths, *angles)
        from .common import eval_small, Undecidable
        rr = [x for x in cab.own_nodes() if isinstance(x, ast.Return) and isinstance(x.value, ast.Tuple)]
        verdict_p = None
        if len(rr) == 1 and rr[0].value.elts and isinstance(rr[0].value.elts[-1], ast.Starred):
            ang = expand(cab, rr[0].value.elts[-1].value)
            if isinstance(ang, ast.ListComp) and len(ang.generators) == 1 and any(isinstance(x, ast.Call) and call_name(x) == "arccos" for x in ast.walk(ang)):
                g = ang.generators[0]
                try:
                    pairs = eval_small(expand(cab, g.iter), {})
                    if isinstance(g.target, (ast.Tuple, ast.List)) and len(g.target.elts) == 2 and all(isinstance(p_, tuple) and len(p_) == 2 for p_ in pairs) and len(pairs) == 3:
                        iv, jv = [t.id for t in g.target.elts]
                        # the dot product inside must be of the rows [iv] and [jv]
                        dots_ = [d for d in ast.walk(ang.elt) if isinstance(d, ast.Call) and call_name(d) == "dot"]
                        idx_ = sorted(ast.unparse(a.slice) for d in dots_ for a in d.args if isinstance(a, ast.Subscript))
                        if idx_ == sorted([iv, jv]):
                            verdict_p = [tuple(sorted(p_)) for p_ in pairs]
                except Undecidable:
                    verdict_p = None
        if verdict_p is not None:
            for k_, nm_ in enumerate(("alpha", "beta", "gamma")):
                okp_ = verdict_p[k_] == want_pairs[k_]
                obs.append(Ob("E2", clause, cab, accs[0], okp_,
                              "%s = angle between lattice rows %s: the %s entry of the pair table is %s%s" % (nm_, want_pairs[k_], ("first", "second", "third")[k_], verdict_p[k_],
                                                                                                         "" if okp_ else " - the angles come out in the order of the table, so this slot holds another angle (alpha and gamma exchanged for (0,1),(0,2),(1,2))"),
                              slot="cell-angle:%s" % nm_, positive="robust" if not okp_ else False))
        else:
            obs.append(Ob("E2", clause, cab, accs[0], False, "the three cell angles come from one expression whose vector-pair table could not be evaluated", slot="cell-angle:alpha", undecided=True))
    elif len(accs) != 3:
        obs.append(Ob("E2", clause, cab, cab.node, False, "expected three arccos expressions (alpha, beta, gamma), found %d" % len(accs), construct="def cell_abc_alpha_beta_gamma",
                      slot="cell-angle:alpha", undecided=True))
    if len(accs) == 3:
        for k_, c_ in enumerate(accs):
            e_ = expand(cab, c_.args[0]) if cab.stmt_of(c_) is not None else c_.args[0]
            dots = [d for d in ast.walk(e_) if isinstance(d, ast.Call) and call_name(d) == "dot"]
            norms = [d for d in ast.walk(e_) if isinstance(d, ast.Call) and call_name(d) == "norm"]
            di = sorted(const_value(a.slice) for d in dots for a in d.args if isinstance(a, ast.Subscript))
            ni = sorted(const_value(a.slice) for d in norms for a in d.args if isinstance(a, ast.Subscript))
            ok_ = tuple(di) == want_pairs[k_] and tuple(ni) == want_pairs[k_]
            obs.append(Ob("E2", clause, cab, c_, ok_,
                          "%s = angle between lattice rows %s: dot product of rows %s normalised by the norms of rows %s" % (("alpha", "beta", "gamma")[k_], want_pairs[k_], di, ni),
                          slot="cell-angle:%s" % ("alpha", "beta", "gamma")[k_], positive=len(di) == 2 and len(ni) == 2))
            # ... and the cosine is the QUOTIENT dot / (norm * norm): exponent +1 for the dot product, -1 for each norm
            def _powers(x, sign, out):
                if isinstance(x, ast.BinOp) and isinstance(x.op, ast.Mult):
                    _powers(x.left, sign, out)
                    _powers(x.right, sign, out)
                elif isinstance(x, ast.BinOp) and isinstance(x.op, ast.Div):
                    _powers(x.left, sign, out)
                    _powers(x.right, -sign, out)
                elif isinstance(x, ast.Call) and call_name(x) in ("dot", "norm"):
                    out.append((call_name(x), sign))
                elif isinstance(x, ast.Call) and call_name(x) == "sqrt" and x.args:
                    out.append(("sqrt", sign))
                else:
                    out.append(("?", sign))
            pw = []
            _powers(e_, 1, pw)
            form_ok = sorted(pw) == [("dot", 1), ("norm", -1), ("norm", -1)]
            recognised = all(k__ in ("dot", "norm") for k__, _ in pw) and len(pw) == 3
            obs.append(Ob("E2", clause, cab, c_, form_ok,
                          "cos(%s) = dot / (norm * norm): factors and exponents found %s" % (("alpha", "beta", "gamma")[k_], sorted(pw)),
                          slot="cell-angle-quotient:%s" % ("alpha", "beta", "gamma")[k_], positive=recognised and not form_ok, undecided=not recognised))
    # s.u. stripping: every float conversion of block values goes through tofloat
    tf = repo.nested(r, "tofloat")
    strips = any(isinstance(c, ast.Call) and call_name(c) == "sub" and c.args and isinstance(c.args[0], ast.Constant) and "\\(" in c.args[0].value
                 for c in ast.walk(tf.node))
    # what the helper does to a CIF number is decided on representative numerals: plain, with s.u., signed, with exponent, with exponent and s.u.
    # (the regular expression is a literal of the source; applying it to these strings is constant folding, nothing of the package runs)
    sem_tf = _cif_number_helper(r, tf)
    if sem_tf is not None:
        ok_tf, why_tf = sem_tf
        obs.append(Ob("E2", clause, tf, tf.node, ok_tf, "numeric helper: %s" % why_tf, construct="def tofloat", slot="tofloat", positive="robust" if not ok_tf else False))
    else:
        obs.append(Ob("E2", clause, tf, tf.node, strips, "numeric helper strips a parenthesised standard uncertainty before float()", construct="def tofloat", slot="tofloat"))
    raw = [c for c in calls_in(r) if call_name(c) == "float"]
    obs.append(Ob("E2", clause, r, raw[0] if raw else r.node, not raw, "no raw float() conversion in the reader body (all go through tofloat): %d found" % len(raw),
                  construct="float(...)" if not raw else None, slot="no-raw-float", positive=bool(raw)))
    uses = calls_named(r, "tofloat")
    coord = [c for c in uses if any(isinstance(a, ast.ListComp) for a in r.ancestors(c))]
    obs.append(Ob("E2", clause, r, uses[0] if uses else r.node, len(coord) >= 4,
                  "x, y, z and the six cell parameters are converted with tofloat (%d conversion sites)" % len(coord), slot="tofloat-sites",
                  undecided=len(coord) >= 1))
    # wrap before cell product, only for fractional input
    mods = [s for s in r.own_nodes() if isinstance(s, ast.AugAssign) and isinstance(s.op, ast.Mod) and const_value(s.value) == 1] + \
           [s for s in r.own_nodes() if isinstance(s, ast.Assign) and isinstance(s.value, ast.BinOp) and isinstance(s.value.op, ast.Mod) and const_value(s.value.right) == 1]
    dots = [s for s in r.own_nodes() if isinstance(s, ast.Assign) and isinstance(s.value, ast.Call) and call_name(s.value) in ("dot", "matmul")]
    ok = len(mods) == 1 and len(dots) == 1 and r.cfg.dominates(mods[0], dots[0]) and not r.cfg.reaches(dots[0], mods[0])
    if not mods and len(dots) == 1:
        # the wrap written inside the product: `np.dot(x % 1.0, cell)` - wrapped first by construction
        inl = [b for b in ast.walk(dots[0].value) if isinstance(b, ast.BinOp) and isinstance(b.op, ast.Mod) and const_value(b.right) == 1]
        if len(inl) == 1:
            mods = [dots[0]]
            ok = True
    def _fract_flag_guard(s):
        for t, pol, k in norm_guards(r, s):
            if pol and isinstance(t, ast.Name):
                trues = [d for d in r.own_nodes() if isinstance(d, ast.Assign) and isinstance(d.targets[0], ast.Name) and d.targets[0].id == t.id
                         and const_value(d.value) is True]
                for d in trues:
                    for t2, pol2, k2 in norm_guards(r, d):
                        if pol2 and "fract" in ast.unparse(expand(r, t2)).lower():
                            return True
        return False
    g_ok = ok and all(_fract_flag_guard(s) for s in (mods[0], dots[0]))
    # the flag that guards wrap and product is TRUE exactly when the fractional columns are the ones that were read: decided on the partial evaluator's
    # terms for the flag and for the coordinate columns over the four combinations of (Cartesian tags present, fractional tags present)
    flag_tab = None
    if ok and not g_ok:
        flag_tab = _fract_flag_table(r, mods[0], dots[0])
        if flag_tab is not None and flag_tab[0]:
            g_ok = True
    # a wrap applied to a SELECTION of the coordinates (`x[mask] %= 1`): the mask, evaluated on representative coordinates, must select every value that the wrap changes
    if mods and isinstance(mods[0], ast.AugAssign) and isinstance(mods[0].target, ast.Subscript) and isinstance(mods[0].target.value, ast.Name):
        from .common import eval_small, Undecidable
        try:
            mask = expand(r, mods[0].target.slice)
        except Exception:
            mask = mods[0].target.slice
        left_out, undec = [], False
        for v_ in (-1.0, -0.5, 0.0, 0.25, 1.0, 1.5, 2.0):
            try:
                sel = eval_small(mask, {mods[0].target.value.id: v_})
            except Undecidable:
                undec = True
                break
            if not sel and v_ % 1.0 != v_:
                left_out.append(v_)
        obs.append(Ob("E2", clause, r, mods[0], not left_out and not undec,
                      "the wrap `%s` is applied to a selection of the coordinates%s" % (ast.unparse(mods[0])[:60], "" if not left_out else
                                                                                      ": the selection leaves out %s, which the wrap would change - such coordinates stay outside [0, 1)" % left_out),
                      slot="wrap-selection", positive="robust" if left_out else False, undecided=undec))
    if flag_tab is not None and not flag_tab[0]:
        obs.append(Ob("E2", clause, r, mods[0], False, "fractional coordinates are wrapped and multiplied with the cell %s" % flag_tab[1], slot="wrap-before-product", positive="robust"))
    else:
        obs.append(Ob("E2", clause, r, mods[0] if mods else r.node, ok and g_ok,
                  "fractional coordinates are wrapped modulo 1 before the multiplication with the cell, and only for fractional input", slot="wrap-before-product",
                  undecided=ok and not g_ok))
    if dots:
        c = dots[0].value
        wrapped = mods[0].target.id if mods and isinstance(mods[0], ast.AugAssign) and isinstance(mods[0].target, ast.Name) else None
        cellv = expand(r, c.args[0]) if c.args else None
        ok = isinstance(c.func, ast.Attribute) and isinstance(c.func.value, ast.Name) and c.func.value.id == wrapped and \
            isinstance(cellv, ast.Call) and call_name(cellv) == "cellpar_to_cell"
        form = None
        if not ok:
            # any spelling of the product (x.dot(cell), np.dot(x, cell), np.matmul, with the wrap written inline): which matrix is applied to the row vectors
            from .common import vec_mat_form

            def _is_cell(x):
                try:
                    v = expand(r, x)
                except Exception:
                    v = x
                return isinstance(v, ast.Call) and call_name(v) == "cellpar_to_cell"
            form = vec_mat_form(c, is_mat=_is_cell)
            ok = form == "M"
        obs.append(Ob("E2", clause, r, dots[0], ok, "Cartesian = fractional (rows) . cell (rows = lattice vectors)%s" % (
            "" if form != "M.T" else " -- the product applies the TRANSPOSED cell: combinations of its columns, not of the lattice vectors"), slot="frac-to-cart",
            positive=form == "M.T", undecided=(not ok and form is None)))
    # reader: the six cell parameters reach cellpar_to_cell in the order of their tags (a, b, c, alpha, beta, gamma)
    want_tags = ["_cell_length_a", "_cell_length_b", "_cell_length_c", "_cell_angle_alpha", "_cell_angle_beta", "_cell_angle_gamma"]
    for cpc in [x for x in calls_in(r) if call_name(x) == "cellpar_to_cell" and x.args and isinstance(x.args[0], (ast.List, ast.Tuple)) and len(x.args[0].elts) == 6]:
        argn = [e_.id if isinstance(e_, ast.Name) else None for e_ in cpc.args[0].elts]
        unp = [n_ for n_ in r.own_nodes() if isinstance(n_, ast.Assign) and isinstance(n_.targets[0], ast.Tuple) and len(n_.targets[0].elts) == 6
               and all(isinstance(e_, ast.Name) for e_ in n_.targets[0].elts) and set(e_.id for e_ in n_.targets[0].elts) & set(x_ for x_ in argn if x_)]
        if len(unp) != 1 or None in argn:
            continue
        tnames = [e_.id for e_ in unp[0].targets[0].elts]
        # the tag list the values are read from
        tag_lists = [n_ for n_ in r.own_nodes() if isinstance(n_, ast.Assign) and isinstance(n_.value, (ast.List, ast.Tuple)) and
                     [const_value(e_) for e_ in n_.value.elts] == want_tags]
        src_ok = bool(tag_lists) and isinstance(unp[0].value, ast.ListComp) and isinstance(unp[0].value.generators[0].iter, ast.Name) and \
            unp[0].value.generators[0].iter.id == tag_lists[0].targets[0].id and not unp[0].value.generators[0].ifs
        order_ok = argn == tnames
        obs.append(Ob("E2", clause, r, cpc, src_ok and order_ok,
                      "cell parameters: read in tag order (a, b, c, alpha, beta, gamma)=%s and handed to cellpar_to_cell as %s (unpacked as %s)" % (src_ok, argn, tnames),
                      slot="cell-parameter-order", positive=src_ok and not order_ok and set(argn) <= set(tnames), undecided=not src_ok))
    # writer: fractional = positions . inv(cell)
    from .common import linalg_chain
    frs = []
    for s in w.own_nodes():
        if isinstance(s, ast.Assign) and len(s.targets) == 1 and isinstance(s.targets[0], ast.Name):
            ch = linalg_chain(expand(w, s.value))
            if ch is not None and len(ch) >= 2 and any(n == "self.positions" for n, t, i in ch):
                frs.append((s, ch))
    want = [("self.positions", False, False), ("self.cell", False, True)]
    if len(frs) == 1:
        ok = frs[0][1] == want
        obs.append(Ob("E2", clause, w, frs[0][0], ok,
                      "writer: fractional = positions . inverse(cell) (matrix chain found: %s; required %s)" % (frs[0][1], want), slot="cart-to-frac", positive=True))
    else:
        obs.append(Ob("E2", clause, w, w.node, False, "writer: Cartesian -> fractional conversion not recognised (%d candidate products)" % len(frs),
                      construct="fractional = positions . inv(cell)", slot="cart-to-frac"))
    # P1 rejection
    rs = [s for s in r.own_nodes() if isinstance(s, ast.Raise)]
    p1 = None
    _tagv = {lp.target.id for lp in r.own_nodes() if isinstance(lp, ast.For) and isinstance(lp.target, ast.Name) and isinstance(lp.iter, (ast.List, ast.Tuple))
             and lp.iter.elts and all("H-M" in str(const_value(x_)) for x_ in lp.iter.elts)}
    for s in rs:
        for t, pol, k in norm_guards(r, s):
            if "H-M" in ast.unparse(t) or any(("(%s)" % v_) in ast.unparse(t) or ("[%s]" % v_) in ast.unparse(t) for v_ in _tagv):
                p1 = (s, t, pol)
    ok = False
    sem_p1 = None
    if p1:
        s, t, pol = p1
        txt = ast.unparse(t)
        ok = pol and "has_key" in txt and "not in" in txt and "'P1'" in txt and "'P 1'" in txt
        # decide the path condition of the raise on representatives: tag present / absent x space group in {P1, "P 1", P 21/c, Fm-3m}
        from .common import eval_small, Undecidable
        import copy as _copy

        class _AbsSG(ast.NodeTransformer):
            def visit_Call(self, n):
                if isinstance(n.func, ast.Attribute) and n.func.attr in ("has_key", "__contains__") and n.args and ("H-M" in str(const_value(n.args[0])) or
                                                                                                                  (isinstance(n.args[0], ast.Name) and n.args[0].id in tag_vars)):
                    return ast.copy_location(ast.Name(id="HAS", ctx=ast.Load()), n)
                if isinstance(n.func, ast.Attribute) and n.func.attr == "get" and n.args and "H-M" in str(const_value(n.args[0])):
                    return ast.copy_location(ast.Name(id="SGGET", ctx=ast.Load()), n)
                return self.generic_visit(n)

            def visit_Subscript(self, n):
                if "H-M" in str(const_value(n.slice)) or (isinstance(n.slice, ast.Name) and n.slice.id in tag_vars):
                    return ast.copy_location(ast.Name(id="SG", ctx=ast.Load()), n)
                return self.generic_visit(n)

            def visit_Compare(self, n):
                if len(n.ops) == 1 and isinstance(n.ops[0], (ast.In, ast.NotIn)) and "H-M" in str(const_value(n.left)) and isinstance(n.comparators[0], ast.Name):
                    e_ = ast.Name(id="HAS", ctx=ast.Load())
                    return ast.copy_location(e_ if isinstance(n.ops[0], ast.In) else ast.UnaryOp(op=ast.Not(), operand=e_), n)
                return self.generic_visit(n)
        # loop variables that run over a literal list of space-group tags: `for tag in ['_symmetry_space_group_name_H-M', '_space_group_name_H-M_alt']`
        tag_vars = {lp.target.id for lp in r.own_nodes() if isinstance(lp, ast.For) and isinstance(lp.target, ast.Name) and isinstance(lp.iter, (ast.List, ast.Tuple))
                    and lp.iter.elts and all("H-M" in str(const_value(x_)) for x_ in lp.iter.elts)}

        def _about_sg(t_):
            tx = ast.unparse(expand(r, t_))
            return "H-M" in tx or any(("[%s]" % v_) in tx or ("(%s)" % v_) in tx for v_ in tag_vars)
        gsp = [(_AbsSG().visit(_copy.deepcopy(expand(r, t_))), pol_) for t_, pol_, k_ in norm_guards(r, s) if _about_sg(t_)]
        try:
            bad = []
            for has in (True, False):
                for sg in ("P1", "P 1", "P 21/c", "Fm-3m", "P -1", "P-1", "P 1 21 1", "P 4/m m m"):
                    env_ = {"HAS": has, "SG": sg, "SGGET": sg if has else None}
                    taken = all(bool(eval_small(t_, env_)) == pol_ for t_, pol_ in gsp)
                    want = has and sg not in ("P1", "P 1")
                    if taken != want:
                        bad.append((has, sg))
            sem_p1 = (not bad, bad[:1])
        except Undecidable:
            sem_p1 = None
    if sem_p1 is not None:
        okp, ex = sem_p1
        obs.append(Ob("E2", clause, r, p1[0], okp,
                      "a declared space group other than P1 / P 1 raises%s" % ("" if okp else ": WRONG for tag present=%s, space group %r" % ex[0]),
                      slot="non-p1-rejected", positive="robust" if not okp else False))
    else:
        obs.append(Ob("E2", clause, r, p1[0] if p1 else r.node, ok, "a declared space group other than P1 / P 1 raises", slot="non-p1-rejected"))
    # torsion block: dihedrals then impropers
    exts = [c for c in calls_in(w) if isinstance(c.func, ast.Attribute) and c.func.attr == "extend" and c.args and is_self_attr(c.args[0])]
    order = [c.args[0].attr for c in exts]
    if not exts:
        # one-expression form: np.array([*self.dihedrals, *self.impropers])
        for n_ in w.own_nodes():
            if isinstance(n_, (ast.List, ast.Tuple)) and n_.elts and all(isinstance(x, ast.Starred) and is_self_attr(x.value) for x in n_.elts):
                order = [x.value.attr for x in n_.elts]
                exts = [n_]
    if not exts:
        # concatenation forms: np.concatenate([a, b]) / np.vstack / np.append(a, b) / a + b with the two term arrays (possibly reshaped) as operands
        for n_ in w.own_nodes():
            ops_ = None
            if isinstance(n_, ast.Call) and call_name(n_) in ("concatenate", "vstack", "row_stack") and n_.args and isinstance(n_.args[0], (ast.List, ast.Tuple)):
                ops_ = n_.args[0].elts
            elif isinstance(n_, ast.Call) and call_name(n_) == "append" and len(n_.args) >= 2 and not (isinstance(n_.func, ast.Attribute) and isinstance(n_.func.value, ast.Name)
                                                                                                        and n_.func.value.id not in ("np", "numpy")):
                ops_ = n_.args[:2]
            elif isinstance(n_, ast.BinOp) and isinstance(n_.op, ast.Add):
                ops_ = [n_.left, n_.right]
            if ops_ and len(ops_) == 2:
                at_ = []
                for o_ in ops_:
                    a_ = [y.attr for y in ast.walk(o_) if is_self_attr(y) and y.attr in ("dihedrals", "impropers")]
                    at_.append(a_[0] if len(set(a_)) == 1 else None)
                if sorted(x for x in at_ if x) == ["dihedrals", "impropers"]:
                    order, exts = at_, [n_]
    obs.append(Ob("E2", clause, w, exts[0] if exts else w.node, order == ["dihedrals", "impropers"], "torsion loop lists dihedrals then impropers (%s)" % order, slot="torsion-order",
                  positive="robust" if order and sorted(order) == ["dihedrals", "impropers"] else bool(order)))
    # the torsion block is written whenever there is a dihedral OR an improper
    tblock = None
    for n_ in w.own_nodes():
        if isinstance(n_, ast.If) and any(is_self_attr(x, "impropers") for b in n_.body for x in ast.walk(b)):
            tblock = n_
    if tblock is not None:
        gtxt = ast.unparse(tblock.test)
        both = "self.dihedrals" in gtxt and "self.impropers" in gtxt and isinstance(tblock.test, ast.BoolOp) and isinstance(tblock.test.op, ast.Or)
        obs.append(Ob("E2", clause, w, tblock, both,
                      "torsion loop is written when there are dihedrals OR impropers (guard: %s)" % gtxt[:70], slot="torsion-guard",
                      positive=("self.dihedrals" in gtxt) != ("self.impropers" in gtxt)))
    # every size test that decides whether a loop block is written is a NON-EMPTINESS test of a term array
    n_sz = 0
    for n_ in w.own_nodes():
        if not isinstance(n_, ast.If):
            continue
        for c_ in [x for x in ast.walk(n_.test) if isinstance(x, ast.Compare) and len(x.ops) == 1]:
            sides = [c_.left, c_.comparators[0]]
            lens = [x for x in sides if isinstance(x, ast.Call) and call_name(x) == "len" and x.args and is_self_attr(x.args[0]) and kind_of(x.args[0].attr) is not None]
            if not lens:
                continue
            n_sz += 1
            k0 = [const_value(x) for x in sides if x is not lens[0]][0]
            op_ = type(c_.ops[0])
            left_is_len = c_.left is lens[0]
            if not left_is_len:
                op_ = {ast.Gt: ast.Lt, ast.Lt: ast.Gt, ast.GtE: ast.LtE, ast.LtE: ast.GtE}.get(op_, op_)
            nonempty = (k0 == 0 and op_ in (ast.Gt, ast.NotEq)) or (k0 == 1 and op_ is ast.GtE)
            obs.append(Ob("E2", clause, w, c_, nonempty,
                          "block guard `%s` %s" % (ast.unparse(c_), "tests that self.%s is non-empty" % lens[0].args[0].attr if nonempty else
                                                   "is NOT a non-emptiness test of self.%s: the loop is %s" % (lens[0].args[0].attr,
                                                                                                           "never written although terms exist" if (k0 == 0 and op_ in (ast.Lt,)) else "written / skipped for the wrong structures")),
                          slot="block-guard:%s" % lens[0].args[0].attr,
                          positive=not nonempty and not (isinstance(k0, (int, float)) and ((op_ is ast.GtE and k0 <= 0) or (op_ is ast.Gt and k0 < 0))),
                          undecided=not nonempty and (isinstance(k0, (int, float)) and ((op_ is ast.GtE and k0 <= 0) or (op_ is ast.Gt and k0 < 0)))))
    if n_sz < 4:
        obs.append(Ob("E2", clause, w, w.node, False, "only %d loop-block size tests found in the CIF writer (4 confirmed by reading: bonds, angles, dihedrals, impropers)" % n_sz,
                      construct="def save_p1_cif block guards", slot="block-guard-count", undecided=True))
    return obs


def E_cif_labels(repo, clause):
    obs = []
    w = repo.fn("Atoms.save_p1_cif")
    r = repo.fn("Atoms.load_p1_cif")
    # counter dict keyed by element, incremented before use
    loops = [n for n in w.own_nodes() if isinstance(n, ast.For) and is_self_attr(n.iter, "elements")]
    ok = False
    detail = "label loop over self.elements not found"
    labels = None
    if len(loops) == 1:
        lp = loops[0]
        e = lp.target.id
        body = lp.body
        inc = [s for s in body if isinstance(s, ast.AugAssign) and isinstance(s.op, ast.Add) and const_value(s.value) == 1 and isinstance(s.target, ast.Subscript)
               and isinstance(s.target.slice, ast.Name) and s.target.slice.id == e]
        app = [s for s in body if isinstance(s, ast.Expr) and isinstance(s.value, ast.Call) and call_name(s.value) == "append"]
        if len(inc) == 1 and len(app) == 1:
            d = inc[0].target.value.id
            a = app[0].value.args[0]
            shape = isinstance(a, ast.BinOp) and isinstance(a.op, ast.Mod) and const_value(a.left) == "%s%d" and isinstance(a.right, ast.Tuple) \
                and ast.unparse(a.right) == "(%s, %s[%s])" % (e, d, e)
            before = body.index(inc[0]) < body.index(app[0])
            ok = shape and before
            labels = app[0].value.func.value.id
            detail = "label = element + running count per element, counter incremented before use (injective by construction): shape=%s order=%s" % (shape, before)
    pos_ = len(loops) == 1 and "shape=True order=False" in detail
    if not loops:
        # a label loop that counts per atom TYPE (or anything else than the element) gives colliding labels
        for lp_ in [n_ for n_ in w.own_nodes() if isinstance(n_, ast.For)]:
            apps_ = [s_ for s_ in lp_.body if isinstance(s_, ast.Expr) and isinstance(s_.value, ast.Call) and call_name(s_.value) == "append"
                     and s_.value.args and isinstance(s_.value.args[0], ast.BinOp) and const_value(s_.value.args[0].left) == "%s%d"]
            if apps_ and not is_self_attr(lp_.iter, "elements"):
                pos_ = True
                detail = "labels are numbered per `%s` item, not per element: two atom types of the same element get the same labels (C1, C1, ...)" % ast.unparse(lp_.iter)
                loops = [lp_]
    obs.append(Ob("E6", clause, w, loops[0] if loops else w.node, ok, detail, slot="label-generation", positive=pos_))
    # every term label column is looked up through the same label list
    n = 0
    for c in ast.walk(w.node):
        if isinstance(c, ast.ListComp) and isinstance(c.elt, ast.Subscript) and isinstance(c.elt.value, ast.Name) and labels and c.elt.value.id == labels:
            n += 1
    obs.append(Ob("E6", clause, w, w.node, n >= 9, "term loops write atom labels through the generated label list (%d columns)" % n, construct="[atom_labels[i] for i in ...]", slot="term-labels",
                  undecided=n >= 1))
    # reader: resolves through atom_name.index
    idx = [c for c in calls_in(r) if isinstance(c.func, ast.Attribute) and c.func.attr == "index"]
    names = {ast.unparse(c.func.value) for c in idx}
    src_ok = False
    if len(names) == 1:
        nm = names.pop()
        e = None
        for s in r.own_nodes():
            if isinstance(s, ast.Assign) and isinstance(s.targets[0], ast.Name) and s.targets[0].id == nm:
                e = s.value
        # atom_name = coords[3]; coords built from tags list whose 4th entry is _atom_site_label
        src_ok = e is not None and isinstance(e, ast.Subscript) and const_value(e.slice) == 3
        tagl = [s for s in r.own_nodes() if isinstance(s, ast.Assign) and isinstance(s.value, ast.List) and len(s.value.elts) == 4
                and all(isinstance(x, ast.Constant) for x in s.value.elts)]
        src_ok = src_ok and len(tagl) == 2 and all(t.value.elts[3].value == "_atom_site_label" for t in tagl)
    obs.append(Ob("E6", clause, r, idx[0] if idx else r.node, len(idx) == 9 and src_ok,
                  "reader resolves every term label through the list of atom-site labels (%d lookups; label column is the 4th coordinate tag=%s)" % (len(idx), src_ok),
                  slot="label-resolution"))
    return obs


# ---- E4: CML ---------------------------------------------------------------------------------------

def E4_cml(repo, clause):
    obs = []
    fn = repo.fn("Atoms.load_cml")
    fa = [c for c in calls_in(fn) if call_name(c) == "findall" and c.args and "atom" in str(const_value(c.args[0]))]
    obs.append(Ob("E4", clause, fn, fa[0] if fa else fn.node, len(fa) == 1, "atoms are collected by a single document-order pass", slot="one-pass"))
    # atom tuples from the same attribute row
    tup = [n for n in fn.own_nodes() if isinstance(n, ast.ListComp) and isinstance(n.elt, ast.Tuple) and len(n.elt.elts) == 5]
    ok = False
    if len(tup) == 1:
        lc = tup[0]
        tg = lc.generators[0].target
        # `for i, a in enumerate(rows)`: the row variable is the second target
        if isinstance(tg, ast.Tuple) and len(tg.elts) == 2 and isinstance(lc.generators[0].iter, ast.Call) and call_name(lc.generators[0].iter) == "enumerate":
            tg = tg.elts[1]
        v = tg.id if isinstance(tg, ast.Name) else None
        keys = []
        for e in lc.elt.elts:
            s = e.args[0] if isinstance(e, ast.Call) and call_name(e) == "float" else e
            if isinstance(s, ast.Subscript) and isinstance(s.value, ast.Name) and s.value.id == v:
                keys.append(const_value(s.slice))
            elif isinstance(s, ast.Call) and isinstance(s.func, ast.Attribute) and s.func.attr == "get" and isinstance(s.func.value, ast.Name) and s.func.value.id == v and s.args:
                keys.append(const_value(s.args[0]))     # row.get('id', default)
            else:
                keys.append(None)
        ok = keys == ["id", "elementType", "x3", "y3", "z3"]
        src = lc.generators[0].iter
    obs.append(Ob("E4", clause, fn, tup[0] if tup else fn.node, ok, "id, elementType, x3, y3, z3 are read from the same atom entry, coordinates as float", slot="same-row"))
    order_ok = False
    detail_o = "source of the atom tuples not recognised"
    if len(tup) == 1:
        srce = expand(fn, tup[0].generators[0].iter)
        reorder = [c for c in ast.walk(srce) if isinstance(c, ast.Call) and call_name(c) in ("sorted", "reversed", "set", "frozenset", "shuffle", "unique")]
        inplace = [c for c in calls_in(fn) if isinstance(c.func, ast.Attribute) and c.func.attr in ("sort", "reverse") and isinstance(c.func.value, ast.Name)]
        from_findall = any(isinstance(c, ast.Call) and call_name(c) == "findall" for c in ast.walk(srce))
        order_ok = from_findall and not reorder and not inplace and not tup[0].generators[0].ifs
        detail_o = "atom entries are used in the order the document lists them (source %s; reordering calls: %s)" % (
            ast.unparse(srce)[:60], [call_name(c) for c in reorder] + [c.func.attr for c in inplace] or "none")
    obs.append(Ob("E4", clause, fn, tup[0] if tup else fn.node, order_ok, detail_o, slot="document-order"))
    # unpack order and positions = [x,y,z].T
    un = [n for n in fn.own_nodes() if isinstance(n, ast.Assign) and isinstance(n.targets[0], ast.Tuple) and len(n.targets[0].elts) == 5]
    names = [e.id for e in un[0].targets[0].elts] if un else []
    ct0 = [c for c in calls_in(fn) if isinstance(c.func, ast.Name) and c.func.id == "cls"]
    def _kwname(k):
        v = kwarg(ct0[0], k) if ct0 else None
        return v.id if isinstance(v, ast.Name) else None
    posname, bondsname = _kwname("positions"), _kwname("bonds")
    pos = [n for n in fn.own_nodes() if isinstance(n, ast.Assign) and isinstance(n.targets[0], ast.Name) and n.targets[0].id == posname]
    ok = bool(un) and bool(pos) and re.sub(r"\s", "", ast.unparse(pos[0].value)) == "np.array([%s,%s,%s]).T" % tuple(names[2:5])
    obs.append(Ob("E4", clause, fn, pos[0] if pos else fn.node, ok, "positions are the (x, y, z) columns in this order", slot="xyz-order"))
    # id map enumerates the same id list
    dm = [n for n in fn.own_nodes() if isinstance(n, ast.Assign) and isinstance(n.value, ast.DictComp)]
    ok = False
    map_recognised = False
    if len(dm) == 1 and names:
        dc = dm[0].value
        g = dc.generators[0]
        map_recognised = isinstance(g.iter, ast.Call) and call_name(g.iter) == "enumerate" and isinstance(g.target, ast.Tuple) and len(g.target.elts) == 2
        ok = map_recognised and isinstance(g.iter.args[0], ast.Name) and g.iter.args[0].id == names[0] \
            and isinstance(dc.key, ast.Name) and dc.key.id == g.target.elts[1].id and isinstance(dc.value, ast.Name) and dc.value.id == g.target.elts[0].id
    if not dm and names:
        # dict(zip(ids, range(len(ids)))) / dict(zip(ids, itertools.count())): the same map
        for n in fn.own_nodes():
            if isinstance(n, ast.Assign) and len(n.targets) == 1 and isinstance(n.targets[0], ast.Name) and isinstance(n.value, ast.Call) and call_name(n.value) == "dict" \
                    and len(n.value.args) == 1 and isinstance(n.value.args[0], ast.Call) and call_name(n.value.args[0]) == "zip" and len(n.value.args[0].args) == 2:
                ka, va = n.value.args[0].args
                dm = [n]
                map_recognised = True
                counts = (isinstance(va, ast.Call) and call_name(va) == "range" and len(va.args) == 1 and isinstance(va.args[0], ast.Call) and call_name(va.args[0]) == "len"
                          and ast.unparse(va.args[0].args[0]) == ast.unparse(ka)) or (isinstance(va, ast.Call) and call_name(va) == "count" and not va.args)
                ok = isinstance(ka, ast.Name) and ka.id == names[0] and bool(counts)
    obs.append(Ob("E4", clause, fn, dm[0] if dm else fn.node, ok, "id -> index map enumerates the id list in document order (key = id, value = position)", slot="id-map",
                  undecided=not map_recognised))
    # bonds resolved through the map
    mname = dm[0].targets[0].id if dm else None
    bl = [n for n in fn.own_nodes() if isinstance(n, ast.Assign) and isinstance(n.targets[0], ast.Name) and n.targets[0].id == bondsname]
    ok = False
    if bl and mname:
        subs = [s for s in ast.walk(bl[0].value) if isinstance(s, ast.Subscript) and isinstance(s.value, ast.Name) and s.value.id == mname]
        ok = len(subs) == 2 and not any(isinstance(c, ast.Call) and call_name(c) == "int" for c in ast.walk(bl[0].value))
    parsed = bool(bl) and any(isinstance(c, ast.Call) and call_name(c) in ("int", "float") for c in ast.walk(bl[0].value))
    # ... also when the endpoints go through a local helper that parses the reference as a number (int(ref) / ref.isdigit())
    if bl and not parsed:
        for c_ in [x for x in ast.walk(bl[0].value) if isinstance(x, ast.Call) and isinstance(x.func, ast.Name)]:
            helper = repo.fns.get((fn.module.name, fn.qualname + "." + c_.func.id)) or repo.maybe_fn(c_.func.id)
            if helper is not None and any(isinstance(y, ast.Call) and call_name(y) in ("int", "float", "isdigit", "isnumeric", "isdecimal") for y in ast.walk(helper.node)):
                parsed = True
    obs.append(Ob("E4", clause, fn, bl[0] if bl else fn.node, ok, "both bond endpoints are resolved through the id map (ids are never parsed as numbers)", slot="bond-resolution",
                  positive=parsed, undecided=not parsed and mname is None))
    ar = [n for n in fn.own_nodes() if isinstance(n, ast.Subscript) and const_value(n.slice) == "atomRefs2"]
    ok = len(ar) == 1 and isinstance(fn.parents.get(fn.parents.get(ar[0])), ast.Call) and call_name(fn.parents.get(fn.parents.get(ar[0]))) == "split"
    obs.append(Ob("E4", clause, fn, ar[0] if ar else fn.node, ok, "atomRefs2 is split on whitespace into the two references", slot="atomrefs-split"))
    # elements and bond list reach the constructor
    ct = [c for c in calls_in(fn) if isinstance(c.func, ast.Name) and c.func.id == "cls"]
    ok = len(ct) == 1 and all(kwarg(ct[0], k) is not None and isinstance(kwarg(ct[0], k), ast.Name) and kwarg(ct[0], k).id == v
                              for k, v in (("elements", names[1] if names else ""),)) and posname is not None and bondsname is not None
    obs.append(Ob("E4", clause, fn, ct[0] if ct else fn.node, ok, "elements, positions and bonds reach the constructor under their own names", slot="ctor"))
    # path vs file: Atoms.load passes fd or path to the same routine
    ld = repo.fn("Atoms.load")
    c = [x for x in calls_in(ld) if isinstance(x.func, ast.Attribute) and x.func.attr == "load_cml"]
    ok = len(c) == 1 and c[0].args and isinstance(c[0].args[0], ast.BoolOp) and isinstance(c[0].args[0].op, ast.Or) \
        and len(c[0].args[0].values) == 2 and all(isinstance(v, ast.Name) and v.id not in ld.params for v in c[0].args[0].values)
    obs.append(Ob("E4", clause, ld, c[0] if c else ld.node, ok, "path and open file are handed to the same loader (fd or path)", slot="path-or-file"))
    return obs


# ---- bonds -----------------------------------------------------------------------------------------

def E_bond_cutoff(repo, clause):
    obs = []
    mb = repo.fn("max_bond_length")
    dl = decision_list(mb.node, {"el1": P("e1"), "el2": P("e2")}, Normalizer())
    nm = ("free", "NON_METALS")
    rad = lambda e: ("sub[]", ("free", "COVALENT_RADII"), P(e))
    want_cond = ("or", ("in", P("e1"), nm), ("in", P("e2"), nm))
    base = ("add", rad("e1"), rad("e2"))
    with_allow = ("add", ("const", 0.45), rad("e1"), rad("e2"))
    ok = len(dl) == 2
    seen_pol = set()
    for conds, res in dl:
        if want_cond in conds:
            ok = ok and res == ("ret", with_allow)
            seen_pol.add(True)
        elif ("not", want_cond) in conds or not conds:
            ok = ok and res == ("ret", base)
            seen_pol.add(False)
        else:
            ok = False
    ok = ok and seen_pol == {True, False}
    sem_undecided = False
    if not ok:
        # the same decision taken semantically: the decision list evaluated on the four (non-metal?, non-metal?) representatives, whatever the spelling of its tests
        from .fam_d2 import Table, Unknown
        try:
            tab = Table(repo, dl)
            nms = tab.const_of(nm)
            m_, v_, radii = _literal(repo, "COVALENT_RADII")
            rep_nm = sorted(x for x in nms if x in radii)[0]
            rep_m = sorted(x for x in radii if x not in nms)[0]
            ok = True
            wrong = []
            for e1 in (rep_nm, rep_m):
                for e2 in (rep_nm, rep_m):
                    i_, leaf = tab.decide({P("e1"): e1, P("e2"): e2})
                    want = with_allow if (e1 == rep_nm or e2 == rep_nm) else base
                    if leaf != ("ret", want):
                        ok = False
                        wrong.append((e1, e2))
            if not ok:
                dl = ["wrong for (el1, el2) = %s" % wrong] + list(dl)
        except (Unknown, AnalysisError, IndexError, KeyError, TypeError):
            sem_undecided = True
    obs.append(Ob("E7", clause, mb, mb.node, ok, positive=(len(dl) >= 2) and not sem_undecided, undecided=sem_undecided,
                  detail="cutoff = r(el1) + r(el2) + 0.45 when el1 OR el2 is a non-metal, else r(el1) + r(el2) (decision list: %s)" % (str(dl)[:200] if not ok else "2 leaves as required"),
                  construct="def max_bond_length", slot="cutoff-formula"))
    ins = [n for n in mb.own_nodes() if isinstance(n, ast.Compare) and len(n.ops) == 1 and isinstance(n.ops[0], (ast.In, ast.NotIn)) and isinstance(n.left, ast.Name)
           and "NON_METALS" in ast.unparse(n.comparators[0])]
    tested = {n.left.id for n in ins}
    obs.append(Ob("E7", clause, mb, ins[0] if ins else mb.node, tested == set(mb.params[:2]),
                  "the non-metal allowance is decided by testing BOTH elements (tested: %s)" % sorted(tested), slot="both-elements-tested",
                  positive=bool(ins) and tested < set(mb.params[:2])))
    fn = repo.fn("detect_bonds")
    cmp_ = [n for n in fn.own_nodes() if isinstance(n, ast.Compare) and any(isinstance(c, ast.Call) and call_name(c) == "max_bond_length" for c in ast.walk(n))]
    if len(cmp_) != 1:
        raise AnalysisError("E7: distance/cutoff comparison not found in detect_bonds")
    c = cmp_[0]
    strict = isinstance(c.ops[0], ast.Lt) and isinstance(c.left, ast.Name)
    par = fn.parents.get(c)
    anyq = isinstance(par, ast.Call) and call_name(par) == "any"
    # the bond criterion as a table: the path condition of the append, with the image distances standing for a small vector and the cutoff for 1.0, must hold exactly
    # when the SMALLEST image distance is strictly below the cutoff (representatives: below, exactly at, above; one and several images)
    sem_b = None
    apps_b = [c2 for c2 in calls_in(fn) if isinstance(c2.func, ast.Attribute) and c2.func.attr == "append"]
    if len(apps_b) == 1:
        from .common import eval_small, Undecidable, Vec
        import copy as _copy

        class _AbsB(ast.NodeTransformer):
            def visit_Call(self, n):
                if call_name(n) == "cdist":
                    return ast.copy_location(ast.Name(id="DIST", ctx=ast.Load()), n)
                if call_name(n) == "max_bond_length":
                    return ast.copy_location(ast.Name(id="CUT", ctx=ast.Load()), n)
                return self.generic_visit(n)
        gsb = []
        for t_, pol_, k_ in norm_guards(fn, apps_b[0]):
            te = expand(fn, t_)
            if any(isinstance(y, ast.Call) and call_name(y) in ("cdist", "max_bond_length") for y in ast.walk(te)):
                gsb.append((_AbsB().visit(_copy.deepcopy(te)), pol_))
        if gsb:
            try:
                bad = []
                for dist in ((0.5, 2.0), (2.0, 0.5), (1.0, 2.0), (2.0, 3.0), (1.0,), (0.999,), (1.001,)):
                    taken = all(bool(eval_small(t_, {"DIST": Vec(dist), "CUT": 1.0})) == pol_ for t_, pol_ in gsb)
                    if taken != (min(dist) < 1.0):
                        bad.append(dist)
                sem_b = (not bad, bad[:1])
            except Undecidable:
                sem_b = None
    if sem_b is not None:
        okb, exb = sem_b
        obs.append(Ob("E7", clause, fn, c, okb,
                      "bonded iff the smallest image distance is STRICTLY below the cutoff%s" % ("" if okb else
                      ": WRONG for image distances %s relative to a cutoff of 1.0 (%s)" % (list(exb[0]), "a pair exactly AT the cutoff distance is bonded" if min(exb[0]) == 1.0 else
                                                                                     ("a pair within the cutoff is NOT bonded" if min(exb[0]) < 1.0 else "a pair beyond the cutoff is bonded"))),
                      slot="strict-any", positive="robust" if not okb else False))
    else:
        obs.append(Ob("E7", clause, fn, c, strict and anyq, "bonded iff ANY image distance is strictly below the cutoff (strict=%s, any=%s)" % (strict, anyq), slot="strict-any"))
    dist = expand(fn, c.left)
    ok = isinstance(dist, ast.Call) and call_name(dist) == "cdist" and const_value(dist.args[2] if len(dist.args) > 2 else ast.Constant("euclidean")) == "euclidean"
    obs.append(Ob("E7", clause, fn, c, ok, "distance is the Euclidean cdist between the images of atom 1 and atom 2", slot="euclidean"))
    mcall = [x for x in ast.walk(c) if isinstance(x, ast.Call) and call_name(x) == "max_bond_length"][0]
    outer = [n for n in fn.own_nodes() if isinstance(n, ast.For) and isinstance(n.iter, ast.Call) and call_name(n.iter) == "enumerate"]
    outer.sort(key=lambda n: n.lineno)
    if len(outer) != 2:
        raise AnalysisError("E7: pair loops not found")
    o, i = outer
    idx1 = o.target.elts[0].id
    inner_i = i.target.elts[0].id
    sl = i.iter.args[0]
    lower = sl.slice.lower if isinstance(sl, ast.Subscript) and isinstance(sl.slice, ast.Slice) else None
    same_arr = isinstance(sl, ast.Subscript) and ast.unparse(sl.value) == ast.unparse(o.iter.args[0])
    idx2_def = [n for n in i.body if isinstance(n, ast.Assign) and isinstance(n.targets[0], ast.Name)]
    idx2 = None
    aff_ok = False
    for d in idx2_def:
        a = affine(d.value)
        if a is not None and a.get(inner_i) == 1:
            idx2 = d.targets[0].id
            la = affine(lower) if lower is not None else None
            rest = {k: v for k, v in a.items() if k != inner_i}
            aff_ok = la is not None and rest == la and la.get(idx1) == 1 and la.get("", 0) == 1
    # enumerate(arr[lo:], start=lo): the loop counter already is the second index
    st_ = kwarg(i.iter, "start") if isinstance(i.iter, ast.Call) else None
    if st_ is None and isinstance(i.iter, ast.Call) and len(i.iter.args) > 1:
        st_ = i.iter.args[1]
    if idx2 is None and st_ is not None and lower is not None:
        la, sa = affine(expand(fn, lower)), affine(expand(fn, st_))
        if la is not None and sa is not None and la == sa:
            idx2 = inner_i
            aff_ok = la.get(idx1) == 1 and la.get("", 0) == 1
    obs.append(Ob("E7", clause, fn, i, aff_ok and same_arr,
                  "inner loop runs over the suffix [%s:] of the same array and the second index is rebuilt as inner index + %s (each unordered pair once, i<j)"
                  % (ast.unparse(lower) if lower is not None else "?", ast.unparse(lower) if lower is not None else "?"), slot="pair-once"))
    args_ok = len(mcall.args) == 2 and all(isinstance(a, ast.Subscript) and isinstance(a.slice, ast.Name) for a in mcall.args) and \
        sorted(a.slice.id for a in mcall.args) == sorted([idx1, idx2 or "?"]) and \
        all(ast.unparse(expand(fn, a.value)) == "%s.elements" % fn.params[0] for a in mcall.args)
    obs.append(Ob("E7", clause, fn, mcall, args_ok, "cutoff is taken for the elements of exactly these two atoms", slot="own-elements"))
    app = [c2 for c2 in calls_in(fn) if isinstance(c2.func, ast.Attribute) and c2.func.attr == "append"]
    ok = len(app) == 1 and ast.unparse(app[0].args[0]) in ("[%s, %s]" % (idx1, idx2), "(%s, %s)" % (idx1, idx2))
    obs.append(Ob("E7", clause, fn, app[0] if app else fn.node, ok, "the recorded pair is (first index, second index) with first < second", slot="recorded-pair"))
    # images
    offs = [n for n in fn.own_nodes() if isinstance(n, ast.Assign) and isinstance(n.targets[0], ast.Name) and "offset" in n.targets[0].id]
    with_cell = [n for n in offs if isinstance(n.value, ast.Call) and call_name(n.value) == "uc_neighbor_offsets"]
    no_cell = [n for n in offs if n not in with_cell]
    ok = len(with_cell) == 1 and len(no_cell) == 1 and any((pol and "cell is not None" in ast.unparse(t)) or ((not pol) and ast.unparse(t).endswith("cell is None"))
                                                           for t, pol, k in norm_guards(fn, with_cell[0])) \
        and re.sub(r"[\s.]", "", ast.unparse(no_cell[0].value)).replace("00", "0") in ("nparray([[0,0,0]])",)
    pos_bad = False
    why_img = ""
    if not ok:
        from .common import vec_mat_form
        for n_ in offs:
            ev = expand(fn, n_.value)
            if isinstance(ev, ast.Subscript) and isinstance(ev.value, ast.Call) and call_name(ev.value) == "uc_neighbor_offsets":
                pos_bad, why_img = True, " -- only a SUBSET of the image offsets is used (%s)" % ast.unparse(ev)[:60]
            form = vec_mat_form(ev, lambda x: ast.unparse(x).endswith(".cell"))
            if form == "M.T":
                pos_bad, why_img = True, " -- image offsets are built as multipliers . cell.T, i.e. combinations of the COLUMNS of the cell, not of the lattice vectors"
    obs.append(Ob("E7", clause, fn, with_cell[0] if with_cell else (offs[0] if offs else fn.node), ok,
                  "all neighbour-image offsets when a cell exists, only the zero offset otherwise" + why_img, slot="images", positive=pos_bad))
    img = [n for n in fn.own_nodes() if isinstance(n, ast.Assign) and isinstance(n.value, ast.BinOp) and isinstance(n.value.op, ast.Add)
           and any(isinstance(x, ast.Name) and "offset" in x.id for x in ast.walk(n.value))]
    ok = len(img) == 1 and o.target.elts[1].id in ast.unparse(img[0].value)
    plain = False
    if len(img) == 1:
        v_ = img[0].value
        sides = [v_.left, v_.right]
        plain = isinstance(img[0].targets[0], ast.Name) and any(isinstance(x, ast.Name) and x.id == o.target.elts[1].id for x in sides) and \
            any(isinstance(x, ast.Name) and "offset" in x.id for x in sides)
    obs.append(Ob("E7", clause, fn, img[0] if img else fn.node, ok and plain,
                  "images are atom 1's position plus every offset, for every atom (a fresh array per atom)%s" % (
                      "" if plain or not ok else " -- the images are built conditionally / into a preallocated array; whether all images with the right dtype are used cannot be judged"),
                  slot="image-positions", undecided=ok and not plain))
    return obs


# ---- E3: literal tables ----------------------------------------------------------------------------

def _literal(repo, name):
    m, v = repo.table(name)
    try:
        val = ast.literal_eval(v)
    except Exception as e:
        raise AnalysisError("table %s is not a literal: %s" % (name, e))
    return m, v, val


def _dup_keys(v):
    keys = [ast.literal_eval(k) for k in v.keys if k is not None]
    return sorted({k for k in keys if keys.count(k) > 1})


def E3_mass_table(repo, clause):
    m, v, t = _literal(repo, "ATOMIC_MASSES")
    fo = FileObj(m.relpath, "ATOMIC_MASSES")
    obs = []
    bad = [k for k, x in t.items() if not isinstance(x, (int, float)) or x <= 0]
    obs.append(Ob("E3", clause, fo, v, not bad and len(t) >= 100, "%d elements, all masses positive numbers (bad: %s)" % (len(t), bad or "none"), construct="ATOMIC_MASSES", slot="masses-positive"))
    d = _dup_keys(v)
    obs.append(Ob("E3", clause, fo, v, not d, "no element is listed twice (%s)" % (d or "none"), construct="ATOMIC_MASSES keys", slot="masses-unique"))
    return obs


def E3_radius_tables(repo, clause):
    m, v, rad = _literal(repo, "COVALENT_RADII")
    m2, v2, nm = _literal(repo, "NON_METALS")
    fo = FileObj(m.relpath, "COVALENT_RADII")
    obs = []
    bad = [k for k, x in rad.items() if not isinstance(x, (int, float)) or x <= 0]
    obs.append(Ob("E3", clause, fo, v, not bad and len(rad) >= 90, "%d radii, all positive (bad: %s)" % (len(rad), bad or "none"), construct="COVALENT_RADII", slot="radii-positive"))
    miss = [e for e in nm if e not in rad]
    obs.append(Ob("E3", clause, fo, v2, not miss, "every non-metal has a radius (missing: %s)" % (miss or "none"), construct="NON_METALS", slot="nonmetals-have-radii"))
    d = _dup_keys(v)
    obs.append(Ob("E3", clause, fo, v, not d, "no element is listed twice (%s)" % (d or "none"), construct="COVALENT_RADII keys", slot="radii-unique"))
    return obs


def E3_uff_table(repo, clause, part="all"):
    m, v, t = _literal(repo, "UFF4MOF")
    mm, vm, masses = _literal(repo, "ATOMIC_MASSES")
    fo = FileObj(m.relpath, "UFF4MOF")
    obs = []
    wrong = [k for k, row in t.items() if len(row) != 11 or not all(isinstance(x, (int, float)) for x in row)]
    obs.append(Ob("E3", clause, fo, v, not wrong and len(t) >= 200, "%d rows, each with 11 numeric columns (bad: %s)" % (len(t), wrong[:5] or "none"), construct="UFF4MOF", slot="rows-11-columns"))
    d = _dup_keys(v)
    obs.append(Ob("E3", clause, fo, v, not d, "no type key is listed twice (%s)" % (d or "none"), construct="UFF4MOF keys", slot="keys-unique"))
    cols = {0: ("r1", "> 0 (divisor, bond length)"), 5: ("Z1", "> 0 (force constant)"), 8: ("Xi", "> 0 (sqrt, divisor)"), 2: ("x1", "> 0 (LJ sigma)")}
    for c, (nm, why) in cols.items():
        bad = [k for k, row in t.items() if len(row) == 11 and not row[c] > 0]
        obs.append(Ob("E3", clause, fo, v, not bad, "column %d (%s) %s for all rows (bad: %s)" % (c, nm, why, bad[:5] or "none"), construct="UFF4MOF[*][%d]" % c, slot="col%d-positive" % c))
    for c, nm in ((6, "Vi"), (7, "Uj"), (3, "D1")):
        bad = [k for k, row in t.items() if len(row) == 11 and row[c] < 0]
        obs.append(Ob("E3", clause, fo, v, not bad, "column %d (%s) >= 0 for all rows (under sqrt) (bad: %s)" % (c, nm, bad[:5] or "none"), construct="UFF4MOF[*][%d]" % c, slot="col%d-nonnegative" % c))
    # column indices used by rough_uff
    used = set()
    ru = repo.module("mofun.rough_uff")
    for n in ast.walk(ru.tree):
        if isinstance(n, ast.Subscript) and isinstance(n.value, ast.Subscript) and isinstance(n.value.value, ast.Name) and n.value.value.id == "UFF4MOF":
            k = const_value(n.slice)
            if isinstance(k, int):
                used.add(k)
            elif isinstance(n.slice, ast.Name):
                # [UFF4MOF[a][k] for k in (0, 5, 8)]
                for c in ast.walk(ru.tree):
                    if isinstance(c, ast.comprehension) and isinstance(c.target, ast.Name) and c.target.id == n.slice.id and isinstance(c.iter, (ast.Tuple, ast.List)):
                        used |= {const_value(e) for e in c.iter.elts}
    ok = bool(used) and max(used) < 11 and min(used) >= 0
    obs.append(Ob("E3", clause, FileObj(ru.relpath, "rough_uff"), ru.tree.body[0], ok, "column indices used by rough_uff %s are all < 11" % sorted(used), construct="UFF4MOF[type][k]", slot="column-indices"))
    if part == "domain":
        return obs
    if part == "masses":
        obs = []
    # every key's element prefix has a mass (needed by retype_atoms_from_uff_types)
    for k in sorted(t):
        el = k[0:2].replace("_", "")
        if el not in masses:
            obs.append(Ob("E3", clause, fo, v, False, "UFF type %s: element prefix %r has no entry in ATOMIC_MASSES (retyping raises for this type)" % (k, el),
                          construct="UFF4MOF[%r]" % k, slot="prefix-mass:%s" % k))
    good = sum(1 for k in t if k[0:2].replace("_", "") in masses)
    obs.append(Ob("E3", clause, fo, v, True, "%d of %d UFF types have an element prefix with a tabulated mass" % (good, len(t)), construct="UFF4MOF keys vs ATOMIC_MASSES", slot="prefix-mass-summary"))
    mg = repo.table("MAIN_GROUP_ELEMENTS")
    return obs


def E_bond_order_leaves(repo, clause):
    fn = repo.fn("guess_bond_order")
    dl = decision_list(fn.node, {p: P(p) for p in fn.params}, Normalizer())
    obs = []
    for i, (conds, res) in enumerate(dl):
        ok = False
        if res[0] == "ret":
            v = res[1]
            if v[0] == "const" and v[1] in (1, 1.5, 2):
                ok = True
                what = "literal %s" % v[1]
            elif v[0] == "loopvar":
                ok = any(c[0] == "inloop" and c[1] == P("rules") for c in conds)
                what = "the bond order of a caller-supplied rule"
            else:
                what = str(v)[:60]
        else:
            what = "raise"
        obs.append(Ob("E8", clause, fn, fn.node, ok, "leaf #%d returns %s (log(bond_order) is applied to a positive literal on every guessed path)" % (i, what),
                      construct="def guess_bond_order leaf %d" % i, slot="leaf%d" % i))
    floor("E8", "leaves of guess_bond_order", len(dl), 4)
    return obs


def E_retype(repo, clause):
    fn = repo.fn("retype_atoms_from_uff_types")
    obs = []
    a = fn.params[0]
    t = fn.params[1]
    stores = {}
    for n in fn.own_nodes():
        if isinstance(n, ast.Assign) and isinstance(n.targets[0], ast.Attribute) and isinstance(n.targets[0].value, ast.Name) and n.targets[0].value.id == a:
            stores[n.targets[0].attr] = n
    need = ["atom_type_labels", "atom_type_elements", "atom_type_masses", "atom_types"]
    miss = [x for x in need if x not in stores]
    if miss:
        raise AnalysisError("E9: retype no longer assigns %s" % miss)
    lab = stores["atom_type_labels"].value
    U = lab.id if isinstance(lab, ast.Name) else None
    obs.append(Ob("E9", clause, fn, stores["atom_type_labels"], U is not None, "labels are the sorted unique type list itself", slot="labels"))
    el = stores["atom_type_elements"].value
    ok = isinstance(el, ast.ListComp) and isinstance(el.generators[0].iter, ast.Name) and el.generators[0].iter.id == U and not el.generators[0].ifs
    obs.append(Ob("E9", clause, fn, stores["atom_type_elements"], ok, "elements are derived per entry of the same list, in the same order", slot="elements"))
    ms = stores["atom_type_masses"].value
    ok2 = isinstance(ms, ast.ListComp) and ast.unparse(ms.generators[0].iter) == "%s.atom_type_elements" % a and \
        isinstance(ms.elt, ast.Subscript) and ast.unparse(ms.elt.value) == "ATOMIC_MASSES" and not ms.generators[0].ifs and \
        fn.cfg.dominates(stores["atom_type_elements"], stores["atom_type_masses"])
    obs.append(Ob("E9", clause, fn, stores["atom_type_masses"], ok2, "masses are looked up per element of the freshly assigned element table", slot="masses"))
    ty = stores["atom_types"].value
    ok3 = isinstance(ty, ast.ListComp) and isinstance(ty.elt, ast.Call) and ast.unparse(ty.elt.func) == "%s.index" % U and \
        isinstance(ty.generators[0].iter, ast.Name) and ty.generators[0].iter.id == t and ast.unparse(ty.elt.args[0]) == ty.generators[0].target.id
    # recognised idiom `<list>.index(t) for t in types` over a DIFFERENT list than the one the tables are derived from
    other_list = isinstance(ty, ast.ListComp) and isinstance(ty.elt, ast.Call) and isinstance(ty.elt.func, ast.Attribute) and ty.elt.func.attr == "index" and not ok3
    obs.append(Ob("E9", clause, fn, stores["atom_types"], ok3, "per-atom type id = position of the atom's UFF type in the unique list" + (
        "" if not other_list else " -- NO: the position is looked up in `%s`, not in the sorted unique list `%s` that labels, elements and masses are derived from: ids and tables disagree" % (ast.unparse(ty.elt.func.value)[:40], U)),
        slot="type-ids", positive=other_list, undecided=not ok3 and not other_list))
    # unique list built from the per-atom types; prefix expression same in sort key and element table
    ud = [n for n in fn.own_nodes() if isinstance(n, ast.Assign) and isinstance(n.targets[0], ast.Name) and n.targets[0].id == U]
    ok4 = len(ud) == 1 and re.sub(r"\s", "", ast.unparse(ud[0].value)) in ("list(set(%s))" % t, "sorted(set(%s))" % t, "sorted(list(set(%s)))" % t)
    obs.append(Ob("E9", clause, fn, ud[0] if ud else fn.node, ok4, "unique list = set of the given per-atom types", slot="unique-source"))
    lam = [n for n in fn.own_nodes() if isinstance(n, ast.Lambda)]
    same_prefix = False
    if lam and isinstance(el, ast.ListComp):
        lv = lam[0].args.args[0].arg
        ev = el.generators[0].target.id
        inner = [c for c in ast.walk(lam[0].body) if isinstance(c, ast.Call) and call_name(c) == "replace"]
        if inner:
            same_prefix = ast.unparse(inner[0]).replace(lv + "[", "V[") == ast.unparse(el.elt).replace(ev + "[", "V[")
    obs.append(Ob("E9", clause, fn, lam[0] if lam else fn.node, same_prefix, "the element prefix is computed by the same expression in the periodic-table sort key and in the element table", slot="same-prefix"))
    srt = [c for c in calls_in(fn) if isinstance(c.func, ast.Attribute) and c.func.attr == "sort" and isinstance(c.func.value, ast.Name) and c.func.value.id == U]
    ok5 = len(srt) == 2 and all(fn.cfg.dominates(fn.stmt_of(s), stores["atom_type_labels"]) for s in srt)
    obs.append(Ob("E9", clause, fn, srt[0] if srt else fn.node, ok5, "the list is sorted (by name, then stably by element) before any table is derived from it", slot="sorted-before-use"))
    # assign_pair_coeffs: one coefficient line per type label; labels are replaced by element-derived UFF keys only on request
    pc = repo.fn("assign_pair_coeffs")
    A_ = pc.params[0]
    st = {}
    for n in pc.own_nodes():
        if isinstance(n, ast.Assign) and isinstance(n.targets[0], ast.Attribute) and isinstance(n.targets[0].value, ast.Name) and n.targets[0].value.id == A_:
            st[n.targets[0].attr] = n
    co = st.get("pair_coeffs")
    ok6 = co is not None and isinstance(co.value, ast.ListComp) and not co.value.generators[0].ifs and ast.unparse(co.value.generators[0].iter) == "%s.atom_type_labels" % A_ \
        and pc.cfg.postdominates(co, pc.node.body[0])
    obs.append(Ob("E9", clause, pc, co if co is not None else pc.node, ok6,
                  "pair coefficients: %s" % ("one line per atom type label, in type order, on every path" if ok6 else (
                      "assign_pair_coeffs NEVER stores atoms.pair_coeffs: the structure keeps a stale or empty pair table" if co is None else "not recognisably one line per type label")),
                  construct=None if co is not None else "atoms.pair_coeffs = [...]", slot="pair-coeffs-store", positive=co is None, undecided=co is not None and not ok6))
    lb = st.get("atom_type_labels")
    if lb is not None and len(pc.params) > 1:
        flag = pc.params[1]
        gs = [(t_, pol) for t_, pol, k_ in norm_guards(pc, lb)]
        governed = [pol for t_, pol in gs if isinstance(t_, ast.Name) and t_.id == flag]
        dflt = pc.param_defaults().get(flag)
        ok7 = governed == [True] and dflt is not None and const_value(dflt) is False
        obs.append(Ob("E9", clause, pc, lb, ok7,
                      "type labels are overwritten by element-derived UFF keys %s" % (
                          "only when `%s` is set (default False)" % flag if ok7 else (
                              "when `%s` is NOT set - the labels assigned by the typing step are discarded by default" % flag if governed == [False] else (
                                  "UNCONDITIONALLY or by default (flag default %s)" % (ast.unparse(dflt) if dflt is not None else "?")))),
                      slot="pair-coeffs-labels", positive=not ok7 and (governed in ([False], []) or (dflt is not None and const_value(dflt) is True))))
    return obs


def E_enumeration_shape(repo, clause):
    obs = []
    ca = repo.fn("calc_angles")
    lc = [n for n in ca.own_nodes() if isinstance(n, (ast.ListComp, ast.GeneratorExp)) and isinstance(n.elt, ast.Tuple) and len(n.elt.elts) == 3]
    ok = False
    recognised = False
    if len(lc) == 1:
        gens = lc[0].generators
        g = gens[-1]
        center, over_nodes = None, False
        if len(gens) == 1:
            lp = [a for a in ca.ancestors(lc[0]) if isinstance(a, ast.For)]
            center = lp[0].target.id if lp and isinstance(lp[0].target, ast.Name) else None
            over_nodes = bool(lp) and ast.unparse(lp[0].iter).endswith(".nodes")
        elif len(gens) == 2 and isinstance(gens[0].target, ast.Name) and not gens[0].ifs:
            center = gens[0].target.id
            over_nodes = ast.unparse(gens[0].iter).endswith(".nodes")
        comb = isinstance(g.iter, ast.Call) and call_name(g.iter) == "combinations" and len(g.iter.args) == 2 and const_value(g.iter.args[1]) == 2 and \
            isinstance(g.iter.args[0], ast.Call) and call_name(g.iter.args[0]) == "neighbors" and len(g.iter.args[0].args) == 1 and ast.unparse(g.iter.args[0].args[0]) == center
        if isinstance(g.target, ast.Tuple) and len(g.target.elts) == 2 and all(isinstance(e, ast.Name) for e in g.target.elts) and center is not None:
            recognised = True
            a, b = [e.id for e in g.target.elts]
            ok = bool(over_nodes) and comb and [getattr(e, "id", None) for e in lc[0].elt.elts] == [a, center, b] and not g.ifs
    obs.append(Ob("E10", clause, ca, lc[0] if lc else ca.node, ok, "angles = every 2-combination of the neighbours of every node, centre in the middle slot", slot="angles",
                  undecided=not recognised))
    for f in (ca, repo.fn("calc_dihedrals")):
        acc = [n.target.id for n in f.own_nodes() if isinstance(n, ast.AugAssign) and isinstance(n.op, ast.Add) and isinstance(n.target, ast.Name)]
        acc += [n.func.value.id for n in f.own_nodes() if isinstance(n, ast.Call) and call_name(n) in ("extend", "append") and isinstance(n.func, ast.Attribute)
                and isinstance(n.func.value, ast.Name)]
        acc += [n.targets[0].id for n in f.own_nodes() if isinstance(n, ast.Assign) and len(n.targets) == 1 and isinstance(n.targets[0], ast.Name)
                and isinstance(n.value, ast.ListComp) and isinstance(n.value.elt, ast.Tuple)]
        acc = sorted(set(acc))
        rets = [n for n in f.own_nodes() if isinstance(n, ast.Return)]
        r_ok = False
        if len(rets) == 1 and len(acc) == 1:
            rv = expand(f, rets[0].value)
            r_ok = isinstance(rv, ast.Call) and call_name(rv) == "array" and len(rv.args) == 1 and isinstance(rv.args[0], ast.Name) and rv.args[0].id == acc[0]
            if isinstance(rv, ast.Name) and rv.id == acc[0]:
                r_ok = True
            raw = rets[0].value
            if isinstance(raw, ast.Call) and call_name(raw) == "array" and len(raw.args) == 1 and isinstance(raw.args[0], ast.Name) and raw.args[0].id == acc[0]:
                r_ok = True
        obs.append(Ob("E10", clause, f, rets[0] if rets else f.node, r_ok,
                      "every enumerated term is returned: the result is the accumulated list itself, not a filtered or de-duplicated version of it", slot="%s:returns-all" % f.name,
                      undecided=len(acc) != 1 or len(rets) != 1))
        g_ok = any(isinstance(c, ast.Call) and ast.unparse(c.func).endswith("add_edges_from") and c.args and isinstance(c.args[0], ast.Name) and c.args[0].id == f.params[0]
                   for c in ast.walk(f.node)) and any(isinstance(c, ast.Call) and ast.unparse(c.func) in ("nx.Graph",) for c in ast.walk(f.node))
        obs.append(Ob("E10", clause, f, f.node, g_ok, "an undirected simple graph is built from exactly the given bond list (direction and duplicates are irrelevant)",
                      construct="nx.Graph().add_edges_from(bonds)", slot="%s:graph" % f.name))
    cd = repo.fn("calc_dihedrals")
    lp = [n for n in cd.own_nodes() if isinstance(n, ast.For) and ast.unparse(n.iter).endswith(".edges")]
    ok = False
    detail = "edge loop not found"
    if len(lp) == 1 and isinstance(lp[0].target, ast.Tuple):
        a, b = [e.id for e in lp[0].target.elts]
        lists = {}
        removes = {}
        for s in lp[0].body:
            if isinstance(s, ast.Assign) and isinstance(s.value, ast.Call) and call_name(s.value) == "list" and isinstance(s.value.args[0], ast.Subscript) \
                    and ast.unparse(s.value.args[0].value).endswith(".adj"):
                lists[s.targets[0].id] = ast.unparse(s.value.args[0].slice)
            if isinstance(s, ast.Expr) and isinstance(s.value, ast.Call) and call_name(s.value) == "remove":
                removes[s.value.func.value.id] = ast.unparse(s.value.args[0])
        an = [k for k, v in lists.items() if v == a]
        bn = [k for k, v in lists.items() if v == b]
        lc = [n for n in ast.walk(lp[0]) if isinstance(n, (ast.ListComp, ast.GeneratorExp)) and isinstance(n.elt, ast.Tuple) and len(n.elt.elts) == 4]
        if an and bn and len(lc) == 1 and len(lc[0].generators) in (1, 2):
            rem_ok = removes.get(an[0]) == b and removes.get(bn[0]) == a
            if len(lc[0].generators) == 2:
                g0, g1 = lc[0].generators
                prod_ok = ast.unparse(g0.iter) == an[0] and ast.unparse(g1.iter) == bn[0] and not g0.ifs and not g1.ifs
                t0_, t1_ = getattr(g0.target, "id", None), getattr(g1.target, "id", None)
            else:
                g0 = lc[0].generators[0]
                prod_ok = isinstance(g0.iter, ast.Call) and call_name(g0.iter) == "product" and [ast.unparse(x) for x in g0.iter.args] == [an[0], bn[0]] and not g0.iter.keywords \
                    and not g0.ifs and isinstance(g0.target, ast.Tuple) and len(g0.target.elts) == 2
                t0_, t1_ = ([getattr(e_, "id", None) for e_ in g0.target.elts] if isinstance(g0.target, ast.Tuple) and len(g0.target.elts) == 2 else (None, None))
            slots = [ast.unparse(e) for e in lc[0].elt.elts] == [t0_, a, b, t1_]
            ok = rem_ok and prod_ok and slots
            detail = "per edge (a,b): neighbours of a minus b times neighbours of b minus a, tuple (a1, a, b, b1): removals=%s product=%s slots=%s" % (rem_ok, prod_ok, slots)
    # recognised shape with a neighbour list that still contains the bond partner: chains a-b-a-x / x-a-b-a are enumerated as torsions
    pos10 = False
    if len(lp) == 1 and isinstance(lp[0].target, ast.Tuple) and not ok:
        try:
            if an and bn and len(lc) == 1 and prod_ok and slots and not rem_ok:
                pos10 = True
                detail += " -- the neighbour list of one end still contains the other end of the bond: degenerate chains through the same atom twice are returned as dihedrals"
        except NameError:
            pass
    obs.append(Ob("E10", clause, cd, lp[0] if lp else cd.node, ok, detail, slot="dihedrals", positive=pos10, undecided=detail == "edge loop not found"))
    # no edge is skipped that has at least one further neighbour on each end (an empty neighbour list yields no tuple anyway)
    if len(lp) == 1:
        try:
            prod_stmt = cd.stmt_of(lc[0]) if lc else None
        except NameError:
            prod_stmt = None
        if prod_stmt is not None:
            for t, pol, k in norm_guards(cd, prod_stmt, stop=lp[0]):
                for cmp_ in [y for y in ast.walk(t) if isinstance(y, ast.Compare) and len(y.ops) == 1 and isinstance(y.left, ast.Call) and call_name(y.left) == "len"]:
                    k0 = const_value(cmp_.comparators[0])
                    op_ = type(cmp_.ops[0])
                    # the product runs when the guard (t taken as pol) holds; a skip `len(x) < k: continue` shows up as (len(x) < k, False)
                    skips_nonempty = None
                    if isinstance(k0, int):
                        if op_ is ast.Lt:
                            skips_nonempty = (k0 > 1) if not pol else None
                        elif op_ is ast.LtE:
                            skips_nonempty = (k0 >= 1) if not pol else None
                        elif op_ is ast.Gt:
                            skips_nonempty = (k0 >= 1) if pol else None
                        elif op_ is ast.GtE:
                            skips_nonempty = (k0 > 1) if pol else None
                        elif op_ is ast.Eq and not pol:
                            skips_nonempty = k0 >= 1
                    if skips_nonempty is None:
                        continue
                    obs.append(Ob("E10", clause, cd, cmp_, not skips_nonempty,
                                  "torsions about a bond are enumerated unless `%s`%s" % (ast.unparse(cmp_), "" if not skips_nonempty else
                                                                                          ": a bond whose end atom has exactly ONE other neighbour (ether oxygen, H-O-O-H, chain ends of rings) has torsions, and they are skipped"),
                                  slot="dihedral-skip", positive=skips_nonempty))
    return obs


def _look_through(fn, e):
    """e with the plain local copies of a column it mentions replaced by their values (atom_type = self.atom_types[i]; `atom_type + 1` -> `self.atom_types[i] + 1`);
    loop variables, starred arguments and anything expand cannot resolve stay as they are"""
    if isinstance(e, ast.Starred) or not any(isinstance(x, ast.Name) for x in ast.walk(e)):
        return e
    try:
        v = expand(fn, e)
    except Exception:
        return e
    return e if isinstance(v, (ast.Tuple, ast.List)) and not isinstance(e, (ast.Tuple, ast.List)) else v


def _enum_start(lp):
    """(first value, name) of the counter of `for i, x in enumerate(xs[, start])`; (None, None) when the loop has another shape"""
    if not (isinstance(lp.iter, ast.Call) and call_name(lp.iter) == "enumerate" and isinstance(lp.target, ast.Tuple) and isinstance(lp.target.elts[0], ast.Name)):
        return None, None
    st_ = kwarg(lp.iter, "start") or (lp.iter.args[1] if len(lp.iter.args) > 1 else None)
    s0 = 0 if st_ is None else const_value(st_)
    return (s0 if isinstance(s0, int) else None), lp.target.elts[0].id


def E_override_both_directions(repo, clause):
    obs = []
    ex = repo.fn("Atoms.extend")
    fe = repo.nested(ex, "find_existing_topo")
    topo, new = fe.params[0], fe.params[1]
    cd = [c for c in calls_in(fe) if call_name(c) == "cdist"]
    fwd = [c for c in cd if ast.unparse(c.args[0]) == topo and ast.unparse(c.args[1]) == new]
    rev = [c for c in cd if ast.unparse(c.args[0]) == topo and isinstance(c.args[1], ast.Call) and call_name(c.args[1]) == "flip"
           and ast.unparse(c.args[1].args[0]) == new and const_value(kwarg(c.args[1], "axis") or (c.args[1].args[1] if len(c.args[1].args) > 1 else None)) == 1]
    rev += [c for c in cd if ast.unparse(c.args[0]) == topo and re.sub(r"\s", "", ast.unparse(c.args[1])) in ("%s[:,::-1]" % new,)]
    sorts = [c for c in calls_in(fe) if call_name(c) in ("sort", "sorted") and any(isinstance(x, ast.Name) and x.id in (topo, new) for x in ast.walk(c))]
    obs.append(Ob("E11", clause, fe, fwd[0] if fwd else (sorts[0] if sorts else fe.node), len(fwd) == 1,
                  "existing terms on the same atoms in the same order are found" + (
                      " -- tuples are SORTED before comparison: terms on the same atom set but with a different centre/order are conflated" if sorts else ""),
                  slot="forward", positive=bool(sorts)))
    obs.append(Ob("E11", clause, fe, rev[0] if rev else fe.node, len(rev) == 1, "existing terms on the same atoms in reversed order are found (new tuples flipped along the atom axis)", slot="reverse"))
    def _is_zero_test(c):
        par = fe.parents.get(c)
        e = eq_const(par) if isinstance(par, ast.Compare) else None
        return e is not None and e[0] is c and e[1] == 0 and e[2]
    zero = all(_is_zero_test(c) for c in cd)
    metric = all(const_value(c.args[2]) in ("cityblock", "euclidean", "sqeuclidean", "chebyshev") for c in cd if len(c.args) > 2)
    obs.append(Ob("E11", clause, fe, cd[0] if cd else fe.node, zero and metric and len(cd) == 2, "identity of tuples is distance == 0 under a true metric", slot="zero-distance"))
    rows = [n for n in fe.own_nodes() if isinstance(n, ast.Subscript) and isinstance(n.value, ast.Call) and call_name(n.value) == "nonzero"]
    ok = len(rows) == 2 and all(const_value(n.slice) == 0 for n in rows)
    obs.append(Ob("E11", clause, fe, rows[0] if rows else fe.node, ok, "row indices (existing terms), not column indices (new terms), are reported", slot="existing-rows"))
    rets = [n for n in fe.own_nodes() if isinstance(n, ast.Return) and not isinstance(n.value, ast.List)]
    ok = len(rets) == 1 and isinstance(rets[0].value, ast.BinOp) and isinstance(rets[0].value.op, ast.Add)
    if ok:
        parts = {ast.unparse(rets[0].value.left), ast.unparse(rets[0].value.right)}
        defs = {}
        for n in fe.own_nodes():
            if isinstance(n, ast.Assign) and isinstance(n.targets[0], ast.Name):
                defs[n.targets[0].id] = n.value
        ok = len(parts) == 2 and all(p in defs for p in parts) and {id(c) for p in parts for c in ast.walk(defs[p]) if isinstance(c, ast.Call) and call_name(c) == "cdist"} == {id(fwd[0]), id(rev[0])} if fwd and rev else False
    single = len(rets) == 1 and isinstance(rets[0].value, ast.Name)
    obs.append(Ob("E11", clause, fe, rets[0] if rets else fe.node, bool(ok), "both index lists are returned (union of forward and reverse hits)", slot="both-returned",
                  positive=single))
    # every return that reports hits reports BOTH directions: a shortcut that hands back the forward hits alone (because "enough" were found) drops the existing terms
    # written in the opposite order - no count of forward hits implies that there are no reverse hits
    def _dir_of(c):
        if not (len(c.args) >= 2 and ast.unparse(c.args[0]) == topo):
            return None
        a1 = c.args[1]
        if ast.unparse(a1) == new:
            return "f"
        if isinstance(a1, ast.Call) and call_name(a1) == "flip" and a1.args and ast.unparse(a1.args[0]) == new:
            return "r"
        if re.sub(r"\s", "", ast.unparse(a1)) == "%s[:,::-1]" % new:
            return "r"
        return None
    for r_ in rets:
        try:
            v_ = expand(fe, r_.value)
        except Exception:
            continue
        dirs = {_dir_of(c) for c in ast.walk(v_) if isinstance(c, ast.Call) and call_name(c) == "cdist"}
        if dirs in ({"f"}, {"r"}):
            obs.append(Ob("E11", clause, fe, r_, False,
                          "`%s` hands back the hits of the %s search only: existing terms written in the %s atom order stay in the structure next to the terms that should override them" % (
                              ast.unparse(r_)[:50], "forward" if dirs == {"f"} else "reverse", "opposite" if dirs == {"f"} else "same"),
                          slot="one-direction-return", positive="robust"))
    # call sites: computed against the array before the new rows are appended
    for k in KINDS:
        cs = [c for c in calls_named(ex, "find_existing_topo") if c.args and is_self_attr(c.args[0], "%ss" % k)]
        if len(cs) != 1:
            raise AnalysisError("E11: find_existing_topo call for %ss not found" % k)
        st = ex.stmt_of(cs[0])
        appends = [n for n in ex.own_nodes() if isinstance(n, ast.Assign) and is_self_attr(n.targets[0], "%ss" % k) and "append" in ast.unparse(n.value)]
        deletes = [n for n in ex.own_nodes() if isinstance(n, ast.Assign) and is_self_attr(n.targets[0], "%ss" % k) and isinstance(n.value, ast.Call) and call_name(n.value) == "delete"]
        ok = len(appends) == 1 and len(deletes) == 1 and ex.cfg.dominates(st, appends[0]) and not ex.cfg.reaches(appends[0], st) and ex.cfg.dominates(appends[0], deletes[0])
        newarg = cs[0].args[1]
        conv = expand(ex, newarg)
        ok2 = isinstance(conv, ast.Call) and conv.args and ast.unparse(conv.args[0]).endswith(".%ss" % k)
        obs.append(Ob("E11", clause, ex, cs[0], ok and ok2,
                      "%ss: existing terms are searched in the pre-append array against the re-targeted new tuples, then new rows are appended, then the overridden rows deleted" % k,
                      slot="order:%s" % k))
    return obs


def E_extra_fields_order(repo, clause):
    obs = []
    fn = repo.fn("Atoms._extend_extra_fields")
    cfg = fn.cfg
    for k in ("atom",) + KINDS:
        lab = [n for n in fn.own_nodes() if isinstance(n, ast.AugAssign) and is_self_attr(n.target, "extra_%s_labels" % k) and isinstance(n.op, ast.BitOr)]
        pad = [n for n in fn.own_nodes() if isinstance(n, ast.Assign) and is_self_attr(n.targets[0], "extra_%s_fields" % k)]
        ret = [n for n in fn.own_nodes() if isinstance(n, ast.Return)]
        ok = len(lab) == 1 and len(pad) == 1 and len(ret) == 1 and cfg.dominates(lab[0], pad[0]) and cfg.dominates(pad[0], ret[0]) \
            and not cfg.reaches(pad[0], lab[0])
        w_ok = ok and "len(self.extra_%s_labels)" % k in ast.unparse(pad[0].value)
        obs.append(Ob("E12", clause, fn, lab[0] if lab else fn.node, ok and w_ok,
                      "%s: labels are merged, then self's fields are padded to the merged width, then the other's rows are matched by label" % k, slot="order:%s" % k))
    mf = repo.nested(fn, "_match_fields")
    idx = [c for c in calls_in(mf) if isinstance(c.func, ast.Attribute) and c.func.attr == "index"]
    ok = len(idx) == 1 and ast.unparse(idx[0].func.value) == mf.params[0]
    obs.append(Ob("E12", clause, mf, idx[0] if idx else mf.node, ok, "the other's columns are placed at the position of their label in the merged label list", slot="by-label"))
    # _pad_fields: the new '.'-filled block has the requested height (the data's own height only when none is given) and the existing
    # values are copied into its top-left corner whenever there are any
    pf = repo.nested(fn, "_pad_fields")
    if len(pf.params) >= 3:
        D_, W_, H_ = pf.params[0], pf.params[1], pf.params[2]
        hdef = [n for n in pf.own_nodes() if isinstance(n, ast.Assign) and isinstance(n.targets[0], ast.Name) and n.targets[0].id == H_]
        for hd in hdef:
            gs_ = [(t_, pol_) for t_, pol_, k_ in norm_guards(pf, hd)]
            ok_h = len(gs_) == 1 and is_none_test_any_e(gs_[0][0]) in ("is", "isnot") and ((is_none_test_any_e(gs_[0][0]) == "is") == bool(gs_[0][1]))
            inverted = len(gs_) == 1 and is_none_test_any_e(gs_[0][0]) in ("is", "isnot") and not ok_h
            obs.append(Ob("E12", clause, pf, hd, ok_h,
                          "_pad_fields takes the data's own height %s" % ("only when no height is given" if ok_h else (
                              "when a height IS given (and keeps None otherwise): the padded block gets the wrong number of rows" if inverted else "under an unrecognised condition")),
                          slot="pad-height-default", positive=inverted, undecided=not ok_h and not inverted))
        copies = [n for n in pf.own_nodes() if isinstance(n, ast.Assign) and isinstance(n.targets[0], ast.Subscript) and isinstance(n.value, ast.Name) and n.value.id == D_]
        if not copies:
            obs.append(Ob("E12", clause, pf, pf.node, False, "_pad_fields NEVER copies the existing values into the padded block: every extra field the structure already had is replaced by '.'",
                          construct="new_data[0:rows, 0:cols] = data", slot="pad-copy", positive=True))
        for cp in copies:
            gs_ = [(t_, pol_) for t_, pol_, k_ in norm_guards(pf, cp)]
            bad_ = None
            for t_, pol_ in gs_:
                if isinstance(t_, ast.Compare) and len(t_.ops) == 1 and ".size" in ast.unparse(t_) or (isinstance(t_, ast.Compare) and "len(" in ast.unparse(t_)):
                    k0 = const_value(t_.comparators[0])
                    op_ = type(t_.ops[0])
                    nonempty = (k0 == 0 and op_ in (ast.Gt, ast.NotEq)) or (k0 == 1 and op_ is ast.GtE)
                    taut = k0 == 0 and op_ is ast.GtE
                    if not ((nonempty and pol_) or taut or ((k0 == 0 and op_ in (ast.Eq, ast.LtE)) and not pol_)):
                        bad_ = (t_, pol_)
            sl = cp.targets[0].slice
            if isinstance(sl, ast.Slice):
                obs.append(Ob("E12", clause, pf, cp, False,
                              "existing values are copied with a ROW slice only (`%s`): the old block is narrower than the padded one whenever a label was added, so the assignment either raises or BROADCASTS a single old column into the new label's column" % ast.unparse(cp.targets[0])[:50],
                              slot="pad-copy", positive=True))
                continue
            corner = isinstance(sl, ast.Tuple) and len(sl.elts) == 2 and all(isinstance(x, ast.Slice) and (x.lower is None or const_value(x.lower) == 0) for x in sl.elts) and \
                [ast.unparse(x.upper) if isinstance(x, ast.Slice) and x.upper is not None else None for x in sl.elts] == ["%s.shape[0]" % D_, "%s.shape[1]" % D_]
            obs.append(Ob("E12", clause, pf, cp, bad_ is None and corner,
                          "existing values are copied into the top-left corner [0:rows, 0:cols] of the padded block whenever there are any%s" % (
                              "" if bad_ is None and corner else (" -- NOT when `%s` is %s: existing extra fields are lost" % (ast.unparse(bad_[0]), bad_[1]) if bad_ is not None else
                                                                 " -- target region is `%s`, not [0:%s.shape[0], 0:%s.shape[1]]" % (ast.unparse(sl)[:50], D_, D_))),
                          slot="pad-copy",
                          positive=bad_ is not None or (isinstance(sl, ast.Tuple) and len(sl.elts) == 2 and all(isinstance(x, ast.Slice) for x in sl.elts) and
                                                        all(x.upper is not None and ast.unparse(x.upper).startswith("%s.shape[" % D_) for x in sl.elts)),
                          undecided=not (bad_ is not None or (isinstance(sl, ast.Tuple) and len(sl.elts) == 2 and all(isinstance(x, ast.Slice) for x in sl.elts) and
                                                              all(x.upper is not None and ast.unparse(x.upper).startswith("%s.shape[" % D_) for x in sl.elts)))))
    # every non-empty result is the re-laid array: returning the other's array as it is keeps the other's column order
    for i, r in enumerate(sorted([n for n in mf.own_nodes() if isinstance(n, ast.Return) and n.value is not None], key=lambda n: n.lineno)):
        v = r.value
        while isinstance(v, ast.Call) and call_name(v) in ("array", "asarray", "copy", "astype") and (v.args or isinstance(v.func, ast.Attribute)):
            v = v.args[0] if v.args and call_name(v) in ("array", "asarray") else (v.func.value if isinstance(v.func, ast.Attribute) else v.args[0])
        passthrough = isinstance(v, ast.Name) and len(mf.params) > 1 and v.id == mf.params[1]
        relaid = False
        if isinstance(v, ast.Name) and not passthrough:
            relaid = any(isinstance(n, ast.Assign) and isinstance(n.targets[0], ast.Subscript) and isinstance(n.targets[0].value, ast.Name)
                         and n.targets[0].value.id == v.id for n in mf.own_nodes())
        filled = isinstance(v, ast.Call) and call_name(v) == "full"
        obs.append(Ob("E12", clause, mf, r, relaid or filled,
                      "_match_fields returns %s" % ("the array whose columns were placed by label" if relaid else ("an all-'.' block (the other has no rows)" if filled else (
                          "the other structure's array UNCHANGED: its columns stay in the other's label order, so values land under the wrong label whenever the two label lists are ordered differently"
                          if passthrough else "an unrecognised value"))), slot="by-label-return:%d" % i, positive=passthrough, undecided=not passthrough))
    fills = [c for c in ast.walk(fn.node) if isinstance(c, ast.Call) and call_name(c) == "full" and len(c.args) >= 2]
    ok = len(fills) >= 3 and all(const_value(c.args[1]) == "." for c in fills)
    obs.append(Ob("E12", clause, fn, fills[0] if fills else fn.node, ok, "missing values are filled with '.' (%d fill sites)" % len(fills), slot="dot-fill"))
    for i, c in enumerate(sorted(fills, key=lambda c: (c.lineno, c.col_offset))):
        dt = kwarg(c, "dtype")
        okd = dt is not None and (const_value(dt) in ("object", "O") or ast.unparse(dt) in ("object", "np.object_"))
        owner = [f for f in [fn] + [g for g in repo.all_fns() if g.outer is fn] if any(x is c for x in ast.walk(f.node))]
        obs.append(Ob("E12", clause, owner[-1] if owner else fn, c, okd,
                      "merged extra-field array is an object array (a '<U1' array created from '.' would truncate every longer value stored into it): dtype=%s"
                      % (ast.unparse(dt) if dt is not None else "(default: fixed-width string of length 1)"), slot="fill-dtype:%d" % i))
    ex = repo.fn("Atoms.extend")
    c = [x for x in calls_in(ex) if isinstance(x.func, ast.Attribute) and x.func.attr == "_extend_extra_fields"]
    ok = len(c) == 1
    if ok:
        st = ex.stmt_of(c[0])
        names = [e.id for e in st.targets[0].elts] if isinstance(st, ast.Assign) and isinstance(st.targets[0], ast.Tuple) else []
        uses = [n for n in ex.own_nodes() if isinstance(n, ast.Name) and n.id in names and isinstance(n.ctx, ast.Load)]
        ok = len(names) == 5 and all(ex.cfg.dominates(st, ex.stmt_of(u)) for u in uses) and len(uses) >= 6
    obs.append(Ob("E12", clause, ex, c[0] if c else ex.node, ok, "extend merges the extra columns once, before any row of the other structure is used", slot="merge-first"))
    return obs
