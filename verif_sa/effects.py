"""Mutation (effect) summaries and flow-sensitive ownership of local values.

``origins`` of a value = the set of parameters whose storage the value may alias, each tagged
'self' (the parameter object itself) or 'view' (an attribute / element / view of it).  A value with
no origins is FRESH.  A *mutator application* is a store through a value (attribute store,
subscript store, in-place operator, ``out=``), a call of a mutating method on it, or passing it to
a function whose summary says it mutates that parameter."""
import ast

from .core import AnalysisError
from .facts import call_name, dotted

CONTAINER_MUTATORS = {
    "append", "extend", "insert", "remove", "pop", "clear", "sort", "reverse", "update", "add", "discard",
    "fill", "put", "resize", "itemset", "setdefault", "popitem", "setflags", "partition", "byteswap",
    "__setitem__", "__delitem__", "__iadd__", "difference_update", "intersection_update",
    "symmetric_difference_update",
}
FUNC_MUTATES_ARG0 = {"shuffle", "fill_diagonal", "put", "place", "copyto", "putmask", "put_along_axis"}
VIEW_METHODS = {"reshape", "ravel", "view", "squeeze", "transpose", "swapaxes", "diagonal", "__array__"}
VIEW_ATTRS = {"T", "flat", "real", "imag", "base"}
VIEW_FUNCS = {"asarray", "asanyarray", "atleast_1d", "atleast_2d", "atleast_3d", "ravel", "reshape", "squeeze",
              "transpose", "ascontiguousarray", "diag", "diagonal", "broadcast_to", "expand_dims", "swapaxes"}
FRESH_FUNCS = {"array", "copy", "deepcopy", "list", "tuple", "set", "dict", "sorted", "frozenset", "str", "int",
               "float", "len", "range", "enumerate", "zip"}

EMPTY = frozenset()


def _targets(t):
    if isinstance(t, (ast.Tuple, ast.List)):
        for e in t.elts:
            yield from _targets(e)
    elif isinstance(t, ast.Starred):
        yield from _targets(t.value)
    else:
        yield t


class Application:
    def __init__(self, fn, node, how, target, origins):
        self.fn = fn
        self.node = node
        self.how = how
        self.target = target        # ast expr of the mutated receiver
        self.origins = origins      # frozenset of (param, via)

    def params(self):
        return {p for p, _ in self.origins}


class Effects:
    def __init__(self, repo):
        self.repo = repo
        self.atoms_methods = {}
        self.properties = set()
        for (m, q), fn in repo.fns.items():
            if fn.cls == "Atoms" and q.count(".") == 1:
                self.atoms_methods[fn.name] = fn
                for d in fn.node.decorator_list:
                    if isinstance(d, ast.Name) and d.id == "property":
                        self.properties.add(fn.name)
        self.mut = {}     # Fn -> set of mutated own params / ('free', name)
        self.retalias = {}  # Fn -> set of params the return value may alias
        self.apps = {}
        for fn in repo.all_fns():
            self.mut[fn] = set()
            self.retalias[fn] = set()
        for _ in range(8):
            changed = False
            for fn in repo.all_fns():
                apps, ret = self._analyze(fn)
                self.apps[fn] = apps
                newmut = set()
                for a in apps:
                    for p, via in a.origins:
                        newmut.add(p)
                if newmut != self.mut[fn] or ret != self.retalias[fn]:
                    changed = True
                    self.mut[fn] = newmut
                    self.retalias[fn] = ret
            if not changed:
                break
        else:
            raise AnalysisError("effect summaries did not converge")

    # ---- callee resolution ---------------------------------------------------------------------
    def resolve(self, fn, call):
        """Return (callee Fn, is_method) or (None, False)."""
        f = call.func
        if isinstance(f, ast.Name):
            # nested helper of this function or of an enclosing one
            o = fn
            while o is not None:
                c = self.repo.fns.get((fn.module.name, o.qualname + "." + f.id))
                if c is not None:
                    return c, False
                o = o.outer
            c = self.repo.fns.get((fn.module.name, f.id))
            if c is not None:
                return c, False
            imp = fn.module.imports.get(f.id)
            if imp and imp[0] and imp[0].startswith("mofun"):
                cands = [x for x in self.repo.by_qual.get(imp[1] or f.id, [])]
                if len(cands) == 1:
                    return cands[0], False
            if f.id == "Atoms" or f.id == "cls":
                return self.atoms_methods.get("__init__"), "ctor"
            return None, False
        if isinstance(f, ast.Attribute):
            if f.attr in self.atoms_methods and not f.attr.startswith("__"):
                d = dotted(f.value)
                # module-qualified calls (np.x, random.x, copy.x ...) are not Atoms methods
                if d is not None and d.split(".")[0] in fn.module.imports and d.split(".")[0] not in ("Atoms",):
                    return None, False
                return self.atoms_methods[f.attr], True
        return None, False

    # ---- per-function analysis -----------------------------------------------------------------
    def _analyze(self, fn):
        cfg = fn.cfg
        init = {}
        for p in fn.params:
            init[p] = frozenset({(p, "self")})
        if fn.outer is not None:
            # free variables: attribute mutations to ('free:<name>') resolved at the outer's call site
            pass
        IN = {n: None for n in cfg.nodes}
        OUT = {n: None for n in cfg.nodes}
        OUT[cfg.ENTRY] = init
        work = list(cfg.nodes)
        guard = 0
        while work:
            guard += 1
            if guard > 20000:
                raise AnalysisError("ownership analysis did not converge in %s" % fn.qualname)
            n = work.pop(0)
            if n is cfg.ENTRY:
                continue
            ins = [OUT[p] for p in cfg.pred[n] if OUT[p] is not None]
            if not ins:
                continue
            st = {}
            for d in ins:
                for k, v in d.items():
                    st[k] = st.get(k, EMPTY) | v
            IN[n] = st
            out = self._transfer(fn, n, st)
            if out != OUT[n]:
                OUT[n] = out
                for s in cfg.succ[n]:
                    if s not in work:
                        work.append(s)
        apps = []
        ret = set()
        for n in cfg.nodes:
            if IN[n] is None or not isinstance(n, ast.stmt):
                continue
            apps.extend(self._mutations(fn, n, IN[n]))
            if isinstance(n, ast.Return) and n.value is not None:
                for p, via in self.origins(fn, n.value, IN[n]):
                    ret.add(p)
        apps.sort(key=lambda a: (getattr(a.node, "lineno", 0), getattr(a.node, "col_offset", 0)))
        self._last_in = IN
        return apps, ret

    def origins(self, fn, e, st):
        if e is None:
            return EMPTY
        if isinstance(e, ast.Name):
            if e.id in st:
                return st[e.id]
            if fn.outer is not None and e.id not in fn.module.imports:
                # free variable of a nested helper: may alias the outer's variable of that name
                if any(isinstance(x, ast.Name) and x.id == e.id for x in ast.walk(fn.outer.node)) and e.id not in fn.params:
                    if e.id in fn.outer.params or _is_local_of(fn.outer, e.id):
                        return frozenset({("free:" + e.id, "self")})
            return EMPTY
        if isinstance(e, ast.Attribute):
            if e.attr in self.properties:
                return EMPTY
            base = self.origins(fn, e.value, st)
            return frozenset((p, "view") for p, _ in base)
        if isinstance(e, ast.Subscript):
            base = self.origins(fn, e.value, st)
            return frozenset((p, "view") for p, _ in base)
        if isinstance(e, ast.Starred):
            return self.origins(fn, e.value, st)
        if isinstance(e, ast.IfExp):
            return self.origins(fn, e.body, st) | self.origins(fn, e.orelse, st)
        if isinstance(e, ast.BoolOp):
            r = EMPTY
            for v in e.values:
                r |= self.origins(fn, v, st)
            return r
        if isinstance(e, ast.NamedExpr):
            return self.origins(fn, e.value, st)
        if isinstance(e, ast.Call):
            name = call_name(e)
            if isinstance(e.func, ast.Attribute) and name in VIEW_METHODS:
                return frozenset((p, "view") for p, _ in self.origins(fn, e.func.value, st))
            if name in VIEW_FUNCS and e.args and not (isinstance(e.func, ast.Attribute) and not _is_module_call(fn, e.func)):
                return frozenset((p, "view") for p, _ in self.origins(fn, e.args[0], st))
            if name in FRESH_FUNCS and not (isinstance(e.func, ast.Attribute) and name in self.atoms_methods
                                            and not _is_module_call(fn, e.func)):
                return EMPTY
            callee, kind = self.resolve(fn, e)
            if callee is not None and kind != "ctor":
                r = EMPTY
                amap = self._argmap(callee, e, kind)
                for p in self.retalias.get(callee, ()):
                    if p in amap:
                        r |= frozenset((q, "view") for q, _ in self.origins(fn, amap[p], st))
                return r
            return EMPTY
        return EMPTY

    def _argmap(self, callee, call, is_method):
        params = list(callee.params)
        amap = {}
        if is_method is True and params:
            amap[params[0]] = call.func.value
            params = params[1:]
        elif is_method == "ctor" and params:
            params = params[1:]
        for p, a in zip(params, call.args):
            if isinstance(a, ast.Starred):
                break
            amap[p] = a
        for k in call.keywords:
            if k.arg is not None:
                amap[k.arg] = k.value
        return amap

    def _iter_origins(self, fn, it, st):
        if isinstance(it, ast.Call) and call_name(it) in ("enumerate", "zip", "reversed", "iter", "list", "tuple") and it.args:
            r = EMPTY
            for a in it.args:
                r |= self._iter_origins(fn, a, st)
            return r
        if isinstance(it, ast.Call) and isinstance(it.func, ast.Attribute) and it.func.attr in ("items", "values"):
            return frozenset((p, "view") for p, _ in self.origins(fn, it.func.value, st))
        return frozenset((p, "view") for p, _ in self.origins(fn, it, st))

    def _transfer(self, fn, n, st):
        out = dict(st)
        if isinstance(n, ast.Assign):
            for t in n.targets:
                if isinstance(t, ast.Name):
                    out[t.id] = self.origins(fn, n.value, st)
                elif isinstance(t, (ast.Tuple, ast.List)):
                    if isinstance(n.value, (ast.Tuple, ast.List)) and len(n.value.elts) == len(t.elts):
                        for te, ve in zip(t.elts, n.value.elts):
                            for x in _targets(te):
                                if isinstance(x, ast.Name):
                                    out[x.id] = self.origins(fn, ve, st)
                    else:
                        o = self.origins(fn, n.value, st)
                        for x in _targets(t):
                            if isinstance(x, ast.Name):
                                out[x.id] = frozenset((p, "view") for p, _ in o)
        elif isinstance(n, ast.AnnAssign) and isinstance(n.target, ast.Name) and n.value is not None:
            out[n.target.id] = self.origins(fn, n.value, st)
        elif isinstance(n, (ast.For, ast.AsyncFor)):
            o = self._iter_origins(fn, n.iter, st)
            for x in _targets(n.target):
                if isinstance(x, ast.Name):
                    out[x.id] = o
        elif isinstance(n, (ast.With, ast.AsyncWith)):
            for it in n.items:
                if it.optional_vars is not None:
                    for x in _targets(it.optional_vars):
                        if isinstance(x, ast.Name):
                            out[x.id] = EMPTY
        elif isinstance(n, (ast.FunctionDef, ast.ClassDef)):
            out[n.name] = EMPTY
        return out

    def _mutations(self, fn, n, st):
        apps = []

        def app(node, how, target):
            o = self.origins(fn, target, st)
            apps.append(Application(fn, node, how, target, o))

        if isinstance(n, ast.Assign):
            for t in n.targets:
                for x in _targets(t):
                    if isinstance(x, ast.Attribute):
                        app(n, "attribute store ." + x.attr, x.value)
                    elif isinstance(x, ast.Subscript):
                        app(n, "subscript store", x.value)
        elif isinstance(n, ast.AugAssign):
            x = n.target
            if isinstance(x, ast.Attribute):
                app(n, "in-place operator on ." + x.attr, x.value)
            elif isinstance(x, ast.Subscript):
                app(n, "in-place operator on element", x.value)
            elif isinstance(x, ast.Name):
                o = st.get(x.id, EMPTY)
                objlike = any(via == "view" for _, via in o) or _object_like(fn, x.id)
                if o and objlike:
                    apps.append(Application(fn, n, "in-place operator", x, o))
                elif not o:
                    apps.append(Application(fn, n, "in-place operator", x, EMPTY))
        elif isinstance(n, ast.Delete):
            for x in n.targets:
                if isinstance(x, ast.Subscript):
                    app(n, "del element", x.value)
                elif isinstance(x, ast.Attribute):
                    app(n, "del attribute", x.value)
                elif isinstance(x, ast.Tuple):
                    for y in x.elts:
                        if isinstance(y, ast.Subscript):
                            app(n, "del element", y.value)
        from .dataflow import header_exprs
        for e in header_exprs(n):
            for c in ast.walk(e):
                if not isinstance(c, ast.Call):
                    continue
                name = call_name(c)
                outk = None
                for k in c.keywords:
                    if k.arg == "out":
                        outk = k.value
                if outk is not None:
                    for t in (outk.elts if isinstance(outk, ast.Tuple) else [outk]):
                        app(c, "out= argument of %s" % name, t)
                callee, kind = self.resolve(fn, c)
                if callee is not None and kind != "ctor":
                    amap = self._argmap(callee, c, kind)
                    for p in self.mut.get(callee, ()):
                        if p.startswith("free:"):
                            nm = p[5:]
                            if nm in st:
                                apps.append(Application(fn, c, "call of %s (mutates captured %s)" % (callee.qualname, nm),
                                                        ast.Name(nm, ast.Load()), st[nm]))
                        elif p in amap:
                            app(c, "call of %s (mutates its parameter %s)" % (callee.qualname, p), amap[p])
                elif isinstance(c.func, ast.Attribute) and name in CONTAINER_MUTATORS and not _is_module_call(fn, c.func):
                    app(c, "mutating method .%s()" % name, c.func.value)
                elif name in FUNC_MUTATES_ARG0 and c.args:
                    app(c, "%s() mutates its first argument" % name, c.args[0])
        return apps


def _is_module_call(fn, func):
    d = dotted(func.value) if isinstance(func, ast.Attribute) else None
    if d is None:
        return False
    return d.split(".")[0] in fn.module.imports


def _object_like(fn, name):
    for n in fn.own_nodes():
        if isinstance(n, (ast.Attribute, ast.Subscript)) and isinstance(n.value, ast.Name) and n.value.id == name:
            return True
    return False


def _is_local_of(fn, name):
    for n in fn.own_nodes():
        if isinstance(n, ast.Name) and n.id == name and isinstance(n.ctx, ast.Store):
            return True
    return False
