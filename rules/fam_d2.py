"""Family D (second part): decision tables over finite abstract domains.

D5  torsion case analysis: the decision list of dihedral_params, evaluated over the finite partition of hybridisation
    characters and element classes that its own comparisons induce, agrees leaf by leaf (periodicity n, sign d, barrier
    monomial) with the documented UFF case table transcribed below (Rappe et al. 1992, eqs 16/17 and the exceptions the
    function documents).  Nothing is executed: the guards are terms of the partial evaluator, their operands take values
    only through comparisons with literals, so a finite set of representatives decides them exhaustively.
D6  user bond-order rules take precedence over every built-in guess (dominance in the CFG), and every parameter function
    hands its rules to the guesser.
"""
import ast
import itertools
import math

from verif_sa.core import Ob, AnalysisError
from verif_sa.facts import call_name
from verif_sa.pe import P, Normalizer, decision_list
from .common import const_value, floor


class Unknown(Exception):
    pass


TYPE_PARAMS = ("a1", "a2", "a3", "a4")


def _mentions(t, pred):
    if pred(t):
        return True
    if isinstance(t, tuple):
        return any(_mentions(x, pred) for x in t)
    return False


def _params_in(t):
    out = set()

    def rec(x):
        if isinstance(x, tuple):
            if len(x) == 2 and x[0] == "param":
                out.add(x[1])
            else:
                for y in x:
                    rec(y)
    rec(t)
    return out


_CMP_OPS = ("le", "lt", "ge", "gt", "eq", "ne", "in", "notin", "is", "isnot")


class Table:
    """Finite-domain evaluation of a decision list."""

    def __init__(self, repo, dl):
        self.repo = repo
        self.dl = dl
        self.features = {}     # feature term -> set of python constants / frozensets it is compared with
        self.tables = {}
        for conds, leaf in dl:
            for c in conds:
                self._scan(c)
            self._scan(leaf)

    # -- constants -------------------------------------------------------------------------------
    def const_of(self, t):
        """Python value of a closed term (no features, no parameters); raises Unknown otherwise."""
        if not isinstance(t, tuple):
            raise Unknown(repr(t))
        op = t[0]
        if op == "const":
            return t[1]
        if op == "set":
            return frozenset(self.const_of(x) for x in t[1:])
        if op == "list":
            return tuple(self.const_of(x) for x in t[1:])
        if op == "call" and t[1] in ("set", "frozenset", "list", "tuple") and len(t[2]) == 2:
            v = self.const_of(t[2][1])
            return frozenset(v) if t[1] in ("set", "frozenset") else tuple(v)
        if op == "free":
            if t[1] not in self.tables:
                try:
                    m, v = self.repo.table(t[1])
                    self.tables[t[1]] = ast.literal_eval(v)
                except Exception:
                    raise Unknown("free name %s is not a literal table" % t[1])
            val = self.tables[t[1]]
            if isinstance(val, (list, tuple, set)):
                return tuple(val)
            raise Unknown("table %s is not a sequence" % t[1])
        raise Unknown(repr(t)[:80])

    def is_closed(self, t):
        try:
            self.const_of(t)
            return True
        except Unknown:
            return False

    # -- feature discovery -----------------------------------------------------------------------
    def _is_feature(self, f):
        return (not self.is_closed(f)) and len(_params_in(f) & set(TYPE_PARAMS)) == 1 and not (_params_in(f) - set(TYPE_PARAMS))

    def _note(self, f, other):
        if not self._is_feature(f):
            return
        s = self.features.setdefault(f, set())
        try:
            v = self.const_of(other)
        except Unknown:
            return
        if isinstance(v, (frozenset, tuple)):
            s.add(frozenset(v))
        else:
            s.add(frozenset([v]))

    def _scan(self, t):
        if not isinstance(t, tuple):
            return
        if t and t[0] in _CMP_OPS and len(t) == 3:
            a, b = t[1], t[2]
            feats = []
            for x, y in ((a, b), (b, a)):
                if isinstance(x, tuple) and x and x[0] == "set" and not self.is_closed(x):
                    for el in x[1:]:
                        self._note(el, y)
                        if self._is_feature(el):
                            feats.append(el)
                else:
                    self._note(x, y)
                    if self._is_feature(x):
                        feats.append(x)
            # features are maximal: comparisons nested inside a feature are part of its definition, not of the table
            for x in (a, b):
                if x in feats:
                    continue
                if isinstance(x, tuple) and x and x[0] == "set":
                    for el in x[1:]:
                        if el not in feats:
                            self._scan(el)
                else:
                    self._scan(x)
            return
        for x in t:
            self._scan(x)

    def domains(self):
        """feature -> list of representative values: one per cell of the partition induced by the literal sets the feature
        is compared with, plus one value outside all of them."""
        out = {}
        for f, sets in self.features.items():
            universe = set()
            for s in sets:
                universe |= set(s)
            cells = {}
            for v in sorted(universe, key=repr):
                sig = tuple(sorted((repr(sorted(s, key=repr)) for s in sets if v in s)))
                # singletons are always separated (equality tests)
                if any(len(s) == 1 and v in s for s in sets):
                    sig = sig + ("=" + repr(v),)
                cells.setdefault(sig, v)
            reps = list(cells.values())
            reps.append("?other?")       # a value none of the literals mention
            out[f] = reps
        return out

    # -- evaluation ------------------------------------------------------------------------------
    def ev(self, t, env):
        if t in env:
            return env[t]
        if not isinstance(t, tuple):
            raise Unknown(repr(t))
        op = t[0]
        if op == "const":
            return t[1]
        if op in ("set",):
            return frozenset(self.ev(x, env) for x in t[1:])
        if op == "list":
            return tuple(self.ev(x, env) for x in t[1:])
        if op == "not":
            return not self.ev(t[1], env)
        if op == "and":
            return all(self.ev(x, env) for x in t[1:])
        if op == "or":
            return any(self.ev(x, env) for x in t[1:])
        if op in ("ifexp", "phi"):
            return self.ev(t[2], env) if self.ev(t[1], env) else self.ev(t[3], env)
        if op in _CMP_OPS and len(t) == 3:
            a, b = self.ev(t[1], env), self.ev(t[2], env)
            if op == "eq":
                return a == b
            if op == "ne":
                return a != b
            if op == "in":
                return a in b
            if op == "notin":
                return a not in b
            if op == "is":
                return a is b
            if op == "isnot":
                return a is not b
            if isinstance(a, frozenset) != isinstance(b, frozenset):
                raise Unknown("ordering between a set and a non-set")
            if not isinstance(a, frozenset) and not (isinstance(a, (int, float)) and isinstance(b, (int, float))):
                raise Unknown("ordering of non-numeric values")
            return {"le": a <= b, "lt": a < b, "ge": a >= b, "gt": a > b}[op]
        if op in ("call", "free"):
            v = self.const_of(t)
            return frozenset(v) if op == "call" and t[1] in ("set", "frozenset") else v
        raise Unknown(repr(t)[:80])

    def decide(self, env):
        for i, (conds, leaf) in enumerate(self.dl):
            if all(self.ev(c, env) for c in conds):
                return i, leaf
        return None, None


def _canon(t):
    """Canonical text of a normalised term with the bond-order phi abbreviated."""
    if not isinstance(t, tuple):
        return repr(t)
    if t[0] == "const":
        v = t[1]
        return repr(float(v)) if isinstance(v, (int, float)) and not isinstance(v, bool) else repr(v)
    if t[0] == "param":
        return t[1]
    if t[0] == "phi" and isinstance(t[1], tuple) and t[1][0] == "is" and t[1][1] == P("bond_order") and t[1][2] == ("const", None) \
            and t[3] == P("bond_order") and isinstance(t[2], tuple) and t[2][0] == "call" and t[2][1] == "guess_bond_order":
        return "BO(%s)" % ",".join(_canon(x) for x in t[2][2][1:])
    if t[0] == "call":
        return "%s(%s)" % (t[1], ",".join(_canon(x) for x in t[2][1:]))
    if t[0] in ("add", "mul"):
        return "%s(%s)" % (t[0], ",".join(sorted(_canon(x) for x in t[1:])))
    return "%s(%s)" % (t[0], ",".join(_canon(x) for x in t[1:]))


def monomial(tab, t, env):
    """(coefficient, {atom text: exponent}) of a product/quotient term; conditionals are resolved under env."""
    if not isinstance(t, tuple):
        raise Unknown(repr(t))
    op = t[0]
    if op == "const" and isinstance(t[1], (int, float)) and not isinstance(t[1], bool):
        return float(t[1]), {}
    if op in ("phi", "ifexp") and not _canon(t).startswith("BO("):
        return monomial(tab, t[2] if tab.ev(t[1], env) else t[3], env)
    if op == "mul":
        c, atoms = 1.0, {}
        for x in t[1:]:
            c2, a2 = monomial(tab, x, env)
            c *= c2
            for k, e in a2.items():
                atoms[k] = atoms.get(k, 0) + e
        return c, {k: e for k, e in atoms.items() if abs(e) > 1e-12}
    if op == "div":
        c1, a1 = monomial(tab, t[1], env)
        c2, a2 = monomial(tab, t[2], env)
        if c2 == 0:
            raise Unknown("division by zero constant")
        atoms = dict(a1)
        for k, e in a2.items():
            atoms[k] = atoms.get(k, 0) - e
        return c1 / c2, {k: e for k, e in atoms.items() if abs(e) > 1e-12}
    if op == "neg":
        c, a = monomial(tab, t[1], env)
        return -c, a
    if op == "pow" and isinstance(t[2], tuple) and t[2][0] == "const" and isinstance(t[2][1], (int, float)):
        c, a = monomial(tab, t[1], env)
        if c < 0 and t[2][1] != int(t[2][1]):
            raise Unknown("fractional power of a negative constant")
        return c ** t[2][1], {k: e * t[2][1] for k, e in a.items()}
    if op == "call" and t[1] == "sqrt" and len(t[2]) == 2:
        c, a = monomial(tab, t[2][1], env)
        if c < 0:
            raise Unknown("sqrt of a negative constant")
        return math.sqrt(c), {k: e * 0.5 for k, e in a.items()}
    return 1.0, {_canon(t): 1}


# ---- the documented torsion case table (Rappe, Casewit, Colwell, Goddard, Skiff 1992; exceptions as documented in the function) ----
CHALCOGENS = {"O", "S", "Se", "Te", "Po"}


def torsion_spec(h, el, main_group):
    """Expected leaf for hybridisation characters h[0..3] and central elements el[1], el[2] (abstract representatives).
    Returns None (no torsion), 'raise', or (n, d, coefficient, atoms)."""
    M = {"num_dihedrals_about_bond": -1}
    hj, hk = h[1], h[2]
    ej, ek = el[1], el[2]
    tabs = lambda col: {"sub[](sub[](free('UFF4MOF'),a2),%r)" % float(col): 0.5, "sub[](sub[](free('UFF4MOF'),a3),%r)" % float(col): 0.5}
    BO = "add(1.0,mul(4.18,log(BO(a2,a3,bond_order_rules))))"
    if {hj, hk} <= {"3"}:
        if {ej, ek} <= CHALCOGENS:
            vj = 2.0 if ej == "O" else 6.8
            vk = 2.0 if ek == "O" else 6.8
            return (2, 1, math.sqrt(vj * vk) / 2, dict(M))
        return (3, 1, 0.5, dict(M, **tabs(6)))
    if {hj, hk} <= {"2", "R"}:
        return (2, -1, 2.5, dict(M, **dict(tabs(7), **{BO: 1})))
    if {hj, hk} <= {"2", "R", "3"}:
        if {h[0], hj} <= {"2"} or {hk, h[3]} <= {"2"}:
            return (3, 1, 1.0, dict(M))
        if (hj == "3" and ej in CHALCOGENS and ek not in CHALCOGENS) or (hk == "3" and ek in CHALCOGENS and ej not in CHALCOGENS):
            return (2, 1, 2.5, dict(M, **dict(tabs(7), **{BO: 1})))
        return (6, -1, 0.5, dict(M))
    if "1" in {hj, hk}:
        return None
    if not {ej, ek} <= set(main_group):
        return None
    return "raise"


def D5_torsion_table(repo, clause):
    fn = repo.fn("dihedral_params")
    for p in TYPE_PARAMS + ("num_dihedrals_about_bond", "bond_order", "bond_order_rules"):
        if p not in fn.params:
            raise AnalysisError("D5: dihedral_params no longer has parameter %s" % p)
    nz = Normalizer({})

    def resolver(name):
        c = repo.fns.get((fn.module.name, name))
        return c.node if c is not None and c is not fn and c.cls is None and name not in ("guess_bond_order",) else None
    dl = decision_list(fn.node, {p: P(p) for p in fn.params}, nz, resolver=resolver)
    tab = Table(repo, dl)
    doms = tab.domains()
    # roles: which feature is the hybridisation / element of which position
    roles = {}
    for f, reps in doms.items():
        pos = TYPE_PARAMS.index(next(iter(_params_in(f) & set(TYPE_PARAMS))))
        lits = set().union(*tab.features[f]) if tab.features[f] else set()
        kind = "el" if lits & CHALCOGENS else ("h" if lits & {"1", "2", "3", "R"} else None)
        if kind is None:
            raise AnalysisError("D5: cannot tell what `%s` stands for (compared with %s)" % (_canon(f)[:60], sorted(map(repr, lits))[:6]))
        if (kind, pos) in roles and roles[(kind, pos)] != f:
            raise AnalysisError("D5: two different expressions for the %s of atom %d" % (kind, pos + 1))
        roles[(kind, pos)] = f
    need = [("h", 0), ("h", 1), ("h", 2), ("h", 3), ("el", 1), ("el", 2)]
    missing = [r for r in need if r not in roles]
    obs = []
    if missing:
        raise AnalysisError("D5: the case analysis does not test %s any more (unrecognised shape)" % missing)
    try:
        main_group = tab.const_of(("free", "MAIN_GROUP_ELEMENTS"))
    except Unknown as e:
        raise AnalysisError("D5: %s" % e)
    feats = [roles[r] for r in need] + [f for f in doms if f not in roles.values()]
    names = need + [("extra", i) for i in range(len(feats) - len(need))]
    # element representatives: make sure the four classes the table distinguishes are present
    def by_signature(f, literals, forced):
        """All classes the documented table distinguishes (forced) plus one representative of every further class that the
        code's own comparisons distinguish."""
        sets = tab.features[f]

        def sig(v):
            return tuple(sorted(repr(sorted(s_, key=repr)) for s_ in sets if v in s_)) + (("=" + repr(v),) if any(len(s_) == 1 and v in s_ for s_ in sets) else ())
        seen = {sig(v) for v in forced}
        out = list(forced)
        for v in sorted(literals, key=repr):
            if v in forced or sig(v) in seen:
                continue
            seen.add(sig(v))
            out.append(v)
        return out
    for r in (("el", 1), ("el", 2)):
        f = roles[r]
        doms[f] = by_signature(f, set(doms[f]) - {"?other?"}, ["O", "S", "C", "Zn"])
    for r in (("h", 0), ("h", 1), ("h", 2), ("h", 3)):
        f = roles[r]
        doms[f] = by_signature(f, set(doms[f]) - {"?other?"}, ["1", "2", "3", "R", "6"])
    if "Zn" in main_group or not {"O", "S", "C"} <= set(main_group):
        raise AnalysisError("D5: MAIN_GROUP_ELEMENTS no longer separates the representatives O, S, C from Zn")
    total = bad = 0
    first_bad = None
    per_case = {}
    try:
        for combo in itertools.product(*[doms[f] for f in feats]):
            env = dict(zip(feats, combo))
            h = [env[roles[("h", i)]] for i in range(4)]
            el = [None, env[roles[("el", 1)]], env[roles[("el", 2)]], None]
            want = torsion_spec(h, el, main_group)
            i, leaf = tab.decide(env)
            total += 1
            got = None
            if leaf is None:
                got = "no path"
            elif leaf[0] == "raise":
                got = "raise"
            elif leaf[1] == ("const", None):
                got = None
            else:
                v = leaf[1]
                if not (v[0] == "list" and len(v) == 5 and v[1] == ("const", "harmonic")):
                    raise Unknown("leaf is not ('harmonic', K, d, n): %s" % _canon(v)[:80])
                n_ = tab.ev(v[4], env)
                d_ = tab.ev(v[3], env)
                c_, atoms = monomial(tab, v[2], env)
                got = (n_, d_, c_, atoms)
            same = got == want if not (isinstance(got, tuple) and isinstance(want, tuple)) else (
                got[0] == want[0] and got[1] == want[1] and abs(got[2] - want[2]) < 1e-9 and
                {k: round(e, 9) for k, e in got[3].items()} == {k: round(e, 9) for k, e in want[3].items()})
            key = "none" if want is None else (want if isinstance(want, str) else "n=%d,d=%+d" % (want[0], want[1]))
            pc = per_case.setdefault(key, [0, 0])
            pc[0] += 1
            if not same:
                bad += 1
                pc[1] += 1
                if first_bad is None:
                    first_bad = (h, el[1], el[2], want, got, i)
    except Unknown as e:
        raise AnalysisError("D5: decision list of dihedral_params uses a construct outside the guard language: %s" % e)
    floor("D5", "abstract type combinations", total, 10000)

    def show(x):
        if isinstance(x, tuple):
            import re as _re
            def nice(k):
                k = _re.sub(r"sub\[\]\(sub\[\]\(free\('UFF4MOF'\),(a\d)\),(\d+)\.0\)", r"UFF4MOF[\1][\2]", k)
                return k.replace("add(1.0,mul(4.18,log(BO(a2,a3,bond_order_rules))))", "(1+4.18*ln(BO))").replace("num_dihedrals_about_bond", "M")
            return "n=%s d=%s K=%.4g%s" % (x[0], x[1], x[2], "".join(" * %s^%g" % (nice(k), e) for k, e in sorted(x[3].items())))
        return repr(x)
    if bad == 0:
        detail = ("torsion case table: %d abstract combinations (hybridisation of all four atoms x element class of the two central atoms, representatives "
                  "taken from the literals the function itself compares with) - every one selects the documented case with the documented n, d and barrier monomial "
                  "(cases: %s)") % (total, ", ".join("%s:%d" % (k, v[0]) for k, v in sorted(per_case.items())))
    else:
        h, e1, e2, want, got, i = first_bad
        detail = ("torsion case table DISAGREES with the documented UFF cases on %d of %d abstract combinations; e.g. hybridisations %s with central elements %s/%s: "
                  "documented %s, code path #%s gives %s") % (bad, total, h, e1, e2, show(want), i, show(got))
    obs.append(Ob("D5", clause, fn, fn.node, bad == 0, detail, construct="def dihedral_params", slot="torsion-table", positive=True))
    for k, (n_all, n_bad) in sorted(per_case.items()):
        obs.append(Ob("D5", clause, fn, fn.node, n_bad == 0, "documented case %s: %d combinations, %d disagree" % (k, n_all, n_bad),
                      construct="def dihedral_params case %s" % k, slot="torsion-case:%s" % k, positive=True))
    return obs


def D6_bond_order_precedence(repo, clause):
    obs = []
    fn = repo.fn("guess_bond_order")
    rules_p = "rules"
    if rules_p not in fn.params:
        raise AnalysisError("D6: guess_bond_order no longer has the parameter `rules`")
    # the user-rule block: the loop over `rules` that returns the rule's bond order
    loops = [n for n in fn.own_nodes() if isinstance(n, ast.For) and any(isinstance(x, ast.Name) and x.id == rules_p for x in ast.walk(n.iter))]
    if len(loops) != 1:
        raise AnalysisError("D6: loop over the user bond-order rules not found in guess_bond_order")
    loop = loops[0]
    # outermost statement of the rules block (the `if rules is not None:` around the loop, if any)
    block = loop
    for a in fn.ancestors(loop):
        if isinstance(a, ast.If) and any(isinstance(x, ast.Name) and x.id == rules_p for x in ast.walk(a.test)):
            block = a
    rets = [r for r in fn.own_nodes() if isinstance(r, ast.Return) and loop not in list(fn.ancestors(r))]
    floor("D6", "built-in bond-order returns", len(rets), 3)
    cfg = fn.cfg
    for r in rets:
        ok = cfg.dominates(block, r)
        obs.append(Ob("D6", clause, fn, r, ok,
                      "built-in guess `%s` is %s" % (ast.unparse(r), "reached only after the user rules have been consulted" if ok else
                                                     "reachable WITHOUT consulting the user bond-order rules: a rule for these atom types is silently ignored"),
                      slot="builtin-after-rules:%s" % ast.unparse(r)[:30], positive=True))
    # every parameter function forwards its rules to the guesser
    n_calls = 0
    for f2 in repo.all_fns():
        if f2.module.name != fn.module.name or "bond_order_rules" not in f2.params:
            continue
        for c in [x for x in f2.own_nodes() if isinstance(x, ast.Call) and call_name(x) == "guess_bond_order"]:
            n_calls += 1
            arg = c.args[2] if len(c.args) > 2 else next((k.value for k in c.keywords if k.arg == rules_p), None)
            ok = isinstance(arg, ast.Name) and arg.id == "bond_order_rules"
            obs.append(Ob("D6", clause, f2, c, ok, "%s %s its bond_order_rules to guess_bond_order" % (f2.qualname, "forwards" if ok else "DOES NOT forward"),
                          slot="forwards-rules:%s" % f2.qualname, positive=True))
    floor("D6", "guess_bond_order call sites with rules", n_calls, 2)
    return obs
