"""Parse the package under analysis and index its functions by API-level names."""
import ast
import os

from .core import AnalysisError

PKG = "mofun"


class Fn:
    """A function definition with parent links and lazily built CFG/dataflow."""

    def __init__(self, repo, module, node, qualname, cls=None, outer=None):
        self.repo = repo
        self.module = module
        self.node = node
        self.qualname = qualname      # e.g. "Atoms.extend", "find_pattern_in_structure", "Atoms.extend.find_existing_topo"
        self.cls = cls
        self.outer = outer            # enclosing Fn for nested helper functions
        self.relpath = module.relpath
        self._parents = None
        self._cfg = None
        self._rd = None

    @property
    def name(self):
        return self.node.name

    @property
    def params(self):
        a = self.node.args
        return [x.arg for x in a.posonlyargs + a.args + a.kwonlyargs]

    def param_defaults(self):
        a = self.node.args
        pos = a.posonlyargs + a.args
        out = {}
        for p, d in zip(pos[len(pos) - len(a.defaults):], a.defaults):
            out[p.arg] = d
        for p, d in zip(a.kwonlyargs, a.kw_defaults):
            if d is not None:
                out[p.arg] = d
        return out

    @property
    def parents(self):
        if self._parents is None:
            par = {}
            for n in ast.walk(self.node):
                for c in ast.iter_child_nodes(n):
                    par[c] = n
            self._parents = par
        return self._parents

    def own_nodes(self):
        """All AST nodes of this function excluding bodies of nested function definitions (but
        including lambdas and comprehensions)."""
        out = []
        stack = list(self.node.body)
        while stack:
            n = stack.pop()
            out.append(n)
            if isinstance(n, (ast.FunctionDef, ast.AsyncFunctionDef, ast.ClassDef)):
                continue
            stack.extend(ast.iter_child_nodes(n))
        return out

    def all_nodes(self):
        return list(ast.walk(self.node))

    def stmt_of(self, node):
        """Innermost statement (of this function) containing ``node``."""
        n = node
        while n is not None and not isinstance(n, ast.stmt):
            n = self.parents.get(n)
        return n

    def enclosing(self, node, types):
        for n in self.ancestors(node):
            if isinstance(n, types):
                return n
        return None

    def ancestors(self, node):
        """Enclosing nodes, innermost first.  A statement in the `else:` clause of a loop is NOT inside that loop (it runs once, after the loop):
        the loop itself is skipped."""
        child = node
        n = self.parents.get(node)
        while n is not None:
            if not (isinstance(n, (ast.For, ast.While, ast.AsyncFor)) and any(child is x for x in n.orelse)):
                yield n
            child = n
            n = self.parents.get(n)

    @property
    def cfg(self):
        if self._cfg is None:
            from .cfg import CFG
            self._cfg = CFG(self)
        return self._cfg

    @property
    def rd(self):
        if self._rd is None:
            from .dataflow import ReachingDefs
            self._rd = ReachingDefs(self)
        return self._rd

    def __repr__(self):
        return "<Fn %s:%s>" % (self.module.name, self.qualname)


_NOT_INLINABLE = (ast.Call, ast.Lambda, ast.ListComp, ast.SetComp, ast.DictComp, ast.GeneratorExp, ast.NamedExpr, ast.Starred,
                  ast.Yield, ast.YieldFrom, ast.Await, ast.JoinedStr)


def inline_adjacent_temps(tree):
    """Normalisation applied to every module before analysis: a local that is assigned once from a
    call-free expression and read exactly once, by the *immediately following* statement, is replaced by
    its expression (``t = a.b; f(t)`` is analysed as ``f(a.b)``).  This makes every rule insensitive to
    single-use alias temporaries; multi-use aliases are handled by ``dataflow.expand`` inside the rules."""
    from .dataflow import header_exprs

    def process_function(fnode):
        stores, loads = {}, {}
        for n in ast.walk(fnode):
            if isinstance(n, ast.Name):
                d = stores if isinstance(n.ctx, (ast.Store, ast.Del)) else loads
                d[n.id] = d.get(n.id, 0) + 1
            elif isinstance(n, ast.arg):
                stores[n.arg] = stores.get(n.arg, 0) + 2
            elif isinstance(n, (ast.Global, ast.Nonlocal)):
                for x in n.names:
                    stores[x] = stores.get(x, 0) + 2

        def process_block(block):
            i = 0
            while i + 1 < len(block):
                st, nxt = block[i], block[i + 1]
                done = False
                if isinstance(st, ast.Assign) and len(st.targets) == 1 and isinstance(st.targets[0], ast.Name):
                    t = st.targets[0].id
                    if stores.get(t, 0) == 1 and loads.get(t, 0) == 1 and not any(isinstance(x, _NOT_INLINABLE) for x in ast.walk(st.value)) \
                            and not isinstance(st.value, (ast.Constant, ast.List, ast.Dict, ast.Set, ast.Tuple)):
                        for e in header_exprs(nxt) + ([tg for tg in nxt.targets] if isinstance(nxt, ast.Assign) else []):
                            for par in ast.walk(e):
                                if isinstance(par, ast.Lambda):
                                    continue
                                for fld, val in ast.iter_fields(par):
                                    if isinstance(val, ast.Name) and val.id == t and isinstance(val.ctx, ast.Load):
                                        setattr(par, fld, st.value)
                                        done = True
                                    elif isinstance(val, list):
                                        for k, x in enumerate(val):
                                            if isinstance(x, ast.Name) and x.id == t and isinstance(x.ctx, ast.Load):
                                                val[k] = st.value
                                                done = True
                            if not done and isinstance(e, ast.Name) and e.id == t and isinstance(e.ctx, ast.Load):
                                # the whole header expression is the temporary
                                for fld, val in ast.iter_fields(nxt):
                                    if val is e:
                                        setattr(nxt, fld, st.value)
                                        done = True
                                    elif isinstance(val, list):
                                        for k, x in enumerate(val):
                                            if x is e:
                                                val[k] = st.value
                                                done = True
                if done:
                    del block[i]
                    loads[t] = 0
                    if i > 0:
                        i -= 1
                else:
                    i += 1
            for st in block:
                if isinstance(st, (ast.FunctionDef, ast.AsyncFunctionDef, ast.ClassDef)):
                    continue
                for fld in ("body", "orelse", "finalbody"):
                    sub = getattr(st, fld, None)
                    if isinstance(sub, list) and sub and isinstance(sub[0], ast.stmt):
                        process_block(sub)
                for h in getattr(st, "handlers", []) or []:
                    process_block(h.body)
        process_block(fnode.body)

    for n in ast.walk(tree):
        if isinstance(n, (ast.FunctionDef, ast.AsyncFunctionDef)):
            process_function(n)
    return tree


def unroll_literal_loops(tree):
    """Third normalisation: a `for` loop over a short LITERAL tuple of constants (optionally tuples of constants / plain names, optionally through
    enumerate(..., start=k) or zip of literals) whose body addresses attributes by computed name (getattr / setattr / hasattr with the loop variable)
    is replaced by its unrolled copies, with the loop variable substituted, constant strings folded and getattr(x, "a") / setattr(x, "a", v) turned
    into x.a / x.a = v.  This is how "one loop over the kinds" refactorings of per-kind blocks look to the rules like the blocks they replace.  Loops
    with break, with a continue that is not a top-level `if c: continue`, with an else clause, or that assign their own loop variable are left alone."""
    import copy

    def lit_elems(e):
        if isinstance(e, (ast.Tuple, ast.List)) and 1 <= len(e.elts) <= 6:
            out = []
            for x in e.elts:
                if isinstance(x, ast.Constant):
                    out.append(x)
                elif isinstance(x, (ast.Tuple, ast.List)) and all(_simple(y) for y in x.elts):
                    out.append(x)
                elif _simple(x):
                    out.append(x)
                else:
                    return None
            return out
        return None

    def _simple(y):
        if isinstance(y, (ast.Constant, ast.Name)):
            return True
        if isinstance(y, ast.Attribute):
            return _simple(y.value)
        return False

    def iter_items(it):
        """list of element expressions the loop target is bound to, or None"""
        direct = lit_elems(it)
        if direct is not None:
            return direct
        if isinstance(it, ast.Call) and isinstance(it.func, ast.Name) and it.func.id == "enumerate" and it.args:
            inner = lit_elems(it.args[0])
            start = 0
            if len(it.args) > 1 and isinstance(it.args[1], ast.Constant) and isinstance(it.args[1].value, int):
                start = it.args[1].value
            for k in it.keywords:
                if k.arg == "start" and isinstance(k.value, ast.Constant) and isinstance(k.value.value, int):
                    start = k.value.value
                elif k.arg == "start":
                    return None
            if inner is None:
                return None
            return [ast.Tuple(elts=[ast.Constant(start + i), x], ctx=ast.Load()) for i, x in enumerate(inner)]
        if isinstance(it, ast.Call) and isinstance(it.func, ast.Name) and it.func.id == "zip" and it.args and not it.keywords:
            cols = [lit_elems(a) for a in it.args]
            if any(c is None for c in cols) or len({len(c) for c in cols}) != 1:
                return None
            return [ast.Tuple(elts=[c[i] for c in cols], ctx=ast.Load()) for i in range(len(cols[0]))]
        return None

    def target_names(t):
        if isinstance(t, ast.Name):
            return [t.id]
        if isinstance(t, (ast.Tuple, ast.List)):
            out = []
            for x in t.elts:
                r = target_names(x)
                if r is None:
                    return None
                out += r
            return out
        return None

    def bind(t, v, env):
        if isinstance(t, ast.Name):
            env[t.id] = v
            return True
        if isinstance(t, (ast.Tuple, ast.List)) and isinstance(v, (ast.Tuple, ast.List)) and len(t.elts) == len(v.elts):
            return all(bind(a, b, env) for a, b in zip(t.elts, v.elts))
        return False

    def uses_computed_attr(body, names):
        names = set(names)
        # locals computed from the loop variable count as derived names
        changed = True
        while changed:
            changed = False
            for st in body:
                for a_ in ast.walk(st):
                    if isinstance(a_, ast.Assign) and any(isinstance(y, ast.Name) and y.id in names for y in ast.walk(a_.value)):
                        for t_ in a_.targets:
                            for y in ast.walk(t_):
                                if isinstance(y, ast.Name) and y.id not in names:
                                    names.add(y.id)
                                    changed = True
        for st in body:
            for c in ast.walk(st):
                if isinstance(c, ast.Call) and isinstance(c.func, ast.Name) and c.func.id in ("getattr", "setattr", "hasattr") and len(c.args) >= 2 \
                        and any(isinstance(y, ast.Name) and y.id in names for y in ast.walk(c.args[1])):
                    return True
        return False

    def loop_level(body, kinds):
        """break / continue statements that belong to THIS loop (not to nested loops)"""
        out = []
        stack = list(body)
        while stack:
            n = stack.pop()
            if isinstance(n, kinds):
                out.append(n)
            if isinstance(n, (ast.For, ast.While, ast.FunctionDef, ast.AsyncFunctionDef, ast.ClassDef, ast.Lambda)):
                continue
            stack.extend(ast.iter_child_nodes(n))
        return out

    class Subst(ast.NodeTransformer):
        def __init__(self, env):
            self.env = env

        def visit_Name(self, n):
            if isinstance(n.ctx, ast.Load) and n.id in self.env:
                return ast.copy_location(copy.deepcopy(self.env[n.id]), n)
            return n

    class Fold(ast.NodeTransformer):
        def visit_BinOp(self, n):
            self.generic_visit(n)
            l, r = n.left, n.right
            if isinstance(n.op, ast.Add) and isinstance(l, ast.Constant) and isinstance(r, ast.Constant) and isinstance(l.value, str) and isinstance(r.value, str):
                return ast.copy_location(ast.Constant(l.value + r.value), n)
            if isinstance(n.op, ast.Mod) and isinstance(l, ast.Constant) and isinstance(l.value, str):
                args = None
                if isinstance(r, ast.Constant):
                    args = r.value
                elif isinstance(r, ast.Tuple) and all(isinstance(x, ast.Constant) for x in r.elts):
                    args = tuple(x.value for x in r.elts)
                if args is not None:
                    try:
                        return ast.copy_location(ast.Constant(l.value % args), n)
                    except Exception:
                        return n
            return n

        def visit_JoinedStr(self, n):
            self.generic_visit(n)
            parts = []
            for v in n.values:
                if isinstance(v, ast.Constant) and isinstance(v.value, str):
                    parts.append(v.value)
                elif isinstance(v, ast.FormattedValue) and isinstance(v.value, ast.Constant) and v.conversion == -1 and v.format_spec is None:
                    parts.append(str(v.value.value))
                else:
                    return n
            return ast.copy_location(ast.Constant("".join(parts)), n)

        def visit_Call(self, n):
            self.generic_visit(n)
            if isinstance(n.func, ast.Name) and n.func.id == "getattr" and len(n.args) == 2 and not n.keywords and isinstance(n.args[1], ast.Constant) \
                    and isinstance(n.args[1].value, str) and n.args[1].value.isidentifier():
                return ast.copy_location(ast.Attribute(value=n.args[0], attr=n.args[1].value, ctx=ast.Load()), n)
            return n

        def visit_Expr(self, n):
            self.generic_visit(n)
            c = n.value
            if isinstance(c, ast.Call) and isinstance(c.func, ast.Name) and c.func.id == "setattr" and len(c.args) == 3 and not c.keywords \
                    and isinstance(c.args[1], ast.Constant) and isinstance(c.args[1].value, str) and c.args[1].value.isidentifier():
                tgt = ast.Attribute(value=c.args[0], attr=c.args[1].value, ctx=ast.Store())
                return ast.copy_location(ast.Assign(targets=[tgt], value=c.args[2], lineno=n.lineno), n)
            return n

    def try_unroll(loop):
        if not isinstance(loop, ast.For) or loop.orelse:
            return None
        items = iter_items(loop.iter)
        names = target_names(loop.target)
        if items is None or names is None:
            return None
        if not uses_computed_attr(loop.body, set(names)):
            return None
        if loop_level(loop.body, (ast.Break,)):
            return None
        if any(isinstance(x, ast.Name) and isinstance(x.ctx, (ast.Store, ast.Del)) and x.id in names for st in loop.body for x in ast.walk(st)):
            return None
        conts = loop_level(loop.body, (ast.Continue,))
        guards = 0
        for st in loop.body:
            if isinstance(st, ast.If) and not st.orelse and len(st.body) == 1 and isinstance(st.body[0], ast.Continue):
                guards += 1
        if len(conts) != guards:
            return None
        out = []
        for item in items:
            env = {}
            if not bind(loop.target, item, env):
                return None
            body = [copy.deepcopy(st) for st in loop.body]
            body = [Fold().visit(Subst(env).visit(st)) for st in body]
            # constant propagation inside the copy: a local bound exactly once (in the whole copy) to a string constant is replaced by it
            for _round in range(3):
                stores = {}
                for st in body:
                    for y in ast.walk(st):
                        if isinstance(y, ast.Name) and isinstance(y.ctx, (ast.Store, ast.Del)):
                            stores[y.id] = stores.get(y.id, 0) + 1
                cenv = {}
                for st in body:
                    if isinstance(st, ast.Assign) and len(st.targets) == 1:
                        t_, v_ = st.targets[0], st.value
                        if isinstance(t_, ast.Name) and isinstance(v_, ast.Constant) and isinstance(v_.value, str) and stores.get(t_.id) == 1:
                            cenv[t_.id] = v_
                        elif isinstance(t_, (ast.Tuple, ast.List)) and isinstance(v_, (ast.Tuple, ast.List)) and len(t_.elts) == len(v_.elts):
                            for a_, b_ in zip(t_.elts, v_.elts):
                                if isinstance(a_, ast.Name) and isinstance(b_, ast.Constant) and isinstance(b_.value, str) and stores.get(a_.id) == 1:
                                    cenv[a_.id] = b_
                if not cenv:
                    break
                body = [Fold().visit(Subst(cenv).visit(st)) for st in body]
            # `if c: continue` at the top level of the body: the rest of this copy runs under `not c`
            def nest(stmts):
                for i, st in enumerate(stmts):
                    if isinstance(st, ast.If) and not st.orelse and len(st.body) == 1 and isinstance(st.body[0], ast.Continue):
                        rest = nest(stmts[i + 1:])
                        if not rest:
                            return stmts[:i]
                        neg = ast.UnaryOp(op=ast.Not(), operand=st.test)
                        return stmts[:i] + [ast.copy_location(ast.If(test=neg, body=rest, orelse=[]), st)]
                return stmts
            out.extend(nest(body))
        return out

    def fold_named_literal(stmts, i, fn_node):
        """`kinds = (<literal>)` immediately followed by `for .. in kinds / enumerate(kinds, ..) / zip(kinds, ..)`, the name read nowhere else:
        the loop is given the literal itself and the assignment disappears."""
        st = stmts[i]
        if i == 0 or fn_node is None or not isinstance(st, ast.For):
            return False
        prev = stmts[i - 1]
        if not (isinstance(prev, ast.Assign) and len(prev.targets) == 1 and isinstance(prev.targets[0], ast.Name) and lit_elems(prev.value) is not None):
            return False
        nm = prev.targets[0].id
        loads = [n for n in ast.walk(fn_node) if isinstance(n, ast.Name) and n.id == nm and isinstance(n.ctx, ast.Load)]
        stores = [n for n in ast.walk(fn_node) if isinstance(n, ast.Name) and n.id == nm and isinstance(n.ctx, (ast.Store, ast.Del))]
        if len(loads) != 1 or len(stores) != 1:
            return False
        it = st.iter
        slots = []
        if isinstance(it, ast.Name):
            slots.append(("iter", None))
        elif isinstance(it, ast.Call) and isinstance(it.func, ast.Name) and it.func.id in ("enumerate", "zip"):
            for k, a in enumerate(it.args):
                if isinstance(a, ast.Name) and a.id == nm:
                    slots.append(("arg", k))
        if len(slots) != 1 or (slots[0][0] == "iter" and it.id != nm):
            return False
        if slots[0][0] == "iter":
            st.iter = prev.value
        else:
            it.args[slots[0][1]] = prev.value
        if try_unroll(st) is None:
            # not unrollable after all: restore
            if slots[0][0] == "iter":
                st.iter = ast.copy_location(ast.Name(id=nm, ctx=ast.Load()), prev.value)
            else:
                it.args[slots[0][1]] = ast.copy_location(ast.Name(id=nm, ctx=ast.Load()), prev.value)
            return False
        del stmts[i - 1]
        return True

    def process(stmts, fn_node=None):
        i = 0
        while i < len(stmts):
            st = stmts[i]
            inner_fn = st if isinstance(st, (ast.FunctionDef, ast.AsyncFunctionDef)) else fn_node
            for fld in ("body", "orelse", "finalbody"):
                sub = getattr(st, fld, None)
                if isinstance(sub, list) and sub and isinstance(sub[0], ast.stmt):
                    process(sub, inner_fn)
            for h in getattr(st, "handlers", []) or []:
                process(h.body, inner_fn)
            if fold_named_literal(stmts, i, fn_node):
                i -= 1
                st = stmts[i]
            rep = try_unroll(st)
            if rep is not None and rep:
                process(rep, fn_node)            # the copies may contain loops that have become literal only now
                stmts[i:i + 1] = rep
                i += len(rep)
            else:
                i += 1
    process(tree.body)
    ast.fix_missing_locations(tree)
    return tree


def canonical_tests(tree):
    """Second normalisation applied to every module: tests are brought to one spelling so that no rule depends on it.
    `not (x is None)` -> `x is not None` (and is not / in / not in likewise); an ordered comparison with a numeric literal on the
    LEFT is turned round (`0 < len(x)` -> `len(x) > 0`).  Only spellings change; evaluation order of the two operands of a comparison
    with a literal is irrelevant."""
    flip = {ast.Lt: ast.Gt, ast.Gt: ast.Lt, ast.LtE: ast.GtE, ast.GtE: ast.LtE}
    neg = {ast.Is: ast.IsNot, ast.IsNot: ast.Is, ast.In: ast.NotIn, ast.NotIn: ast.In}

    def is_num(e):
        if isinstance(e, ast.UnaryOp) and isinstance(e.op, (ast.USub, ast.UAdd)):
            e = e.operand
        return isinstance(e, ast.Constant) and isinstance(e.value, (int, float)) and not isinstance(e.value, bool)

    class T(ast.NodeTransformer):
        def visit_UnaryOp(self, n):
            self.generic_visit(n)
            if isinstance(n.op, ast.Not) and isinstance(n.operand, ast.Compare) and len(n.operand.ops) == 1 and type(n.operand.ops[0]) in neg:
                c = n.operand
                new = ast.Compare(left=c.left, ops=[neg[type(c.ops[0])]()], comparators=c.comparators)
                return ast.copy_location(new, n)
            return n

        def visit_Compare(self, n):
            self.generic_visit(n)
            if len(n.ops) == 1 and type(n.ops[0]) in flip and is_num(n.left) and not is_num(n.comparators[0]):
                new = ast.Compare(left=n.comparators[0], ops=[flip[type(n.ops[0])]()], comparators=[n.left])
                return ast.copy_location(new, n)
            # neither side a literal: `a > b` is spelled `b < a`
            if len(n.ops) == 1 and isinstance(n.ops[0], (ast.Gt, ast.GtE)) and not is_num(n.left) and not is_num(n.comparators[0]):
                new = ast.Compare(left=n.comparators[0], ops=[flip[type(n.ops[0])]()], comparators=[n.left])
                return ast.copy_location(new, n)
            return n
    tree = T().visit(tree)
    ast.fix_missing_locations(tree)
    return tree


class Module:
    def __init__(self, name, path, relpath, src, known=None, keep=frozenset()):
        self.name = name
        self.path = path
        self.relpath = relpath
        self.src = src
        from .inline import inline_new_helpers
        self.inlined = []      # (qualname of a NEW helper, "stmt" | "expr" | "removed", line): helpers folded back into their callers
        tree = inline_new_helpers(ast.parse(src, filename=path), known, keep, self.inlined)
        self.tree = canonical_tests(inline_adjacent_temps(unroll_literal_loops(tree)))
        self.imports = {}      # local name -> (module, attr or None)
        self.star_imports = []
        self._scan_imports()

    def _scan_imports(self):
        for n in ast.walk(self.tree):
            if isinstance(n, ast.Import):
                for a in n.names:
                    self.imports[a.asname or a.name.split(".")[0]] = (a.name, None)
            elif isinstance(n, ast.ImportFrom):
                for a in n.names:
                    if a.name == "*":
                        self.star_imports.append(n.module)
                    else:
                        self.imports[a.asname or a.name] = (n.module, a.name)

    def top_assign(self, name):
        """Value node of a module-level assignment ``name = ...`` (last one wins)."""
        val = None
        for st in self.tree.body:
            if isinstance(st, ast.Assign):
                for t in st.targets:
                    if isinstance(t, ast.Name) and t.id == name:
                        val = st.value
            elif isinstance(st, ast.AnnAssign) and isinstance(st.target, ast.Name) and st.target.id == name:
                val = st.value
        return val


class Repo:
    def __init__(self, root=None):
        self.root = root or os.environ.get("VERIF_REPO", "/repo")
        self.modules = {}
        self.fns = {}          # (module name, qualname) -> Fn
        self.by_qual = {}      # qualname -> [Fn]
        self.cache = {}
        pkgdir = os.path.join(self.root, PKG)
        if not os.path.isdir(pkgdir):
            raise AnalysisError("package directory %s not found" % pkgdir)
        # functions of the confirmed reference tree: anything else is a NEW function and is folded back into its callers when that is sound
        known = None
        if not os.environ.get("VERIF_NO_INLINE"):
            from .core import load_reference_shapes
            fr = load_reference_shapes().get("__functions__")
            if isinstance(fr, dict) and fr:
                known = set(fr)
        keep = set()
        if known is not None:
            for dirpath, dirnames, filenames in os.walk(pkgdir):
                for fnm in filenames:
                    if fnm.endswith(".py"):
                        try:
                            with open(os.path.join(dirpath, fnm), encoding="utf-8") as f:
                                for n in ast.walk(ast.parse(f.read())):
                                    if isinstance(n, ast.ImportFrom):
                                        keep.update(a.name for a in n.names)
                        except SyntaxError:
                            pass
        for dirpath, dirnames, filenames in os.walk(pkgdir):
            dirnames[:] = sorted(d for d in dirnames if d != "__pycache__")
            for fnm in sorted(filenames):
                if not fnm.endswith(".py"):
                    continue
                path = os.path.join(dirpath, fnm)
                rel = os.path.relpath(path, self.root)
                modname = rel[:-3].replace(os.sep, ".")
                if modname.endswith(".__init__"):
                    modname = modname[: -len(".__init__")]
                with open(path, encoding="utf-8") as f:
                    src = f.read()
                try:
                    m = Module(modname, path, rel, src, known, keep)
                except SyntaxError as e:
                    raise AnalysisError("cannot parse %s: %s" % (rel, e))
                self.modules[modname] = m
        for m in self.modules.values():
            self._index(m)

    def _index(self, m):
        def rec(body, prefix, cls, outer):
            for st in body:
                if isinstance(st, (ast.FunctionDef, ast.AsyncFunctionDef)):
                    q = prefix + st.name
                    fn = Fn(self, m, st, q, cls=cls, outer=outer)
                    self.fns[(m.name, q)] = fn
                    self.by_qual.setdefault(q, []).append(fn)
                    rec_nested(st, q + ".", cls, fn)
                elif isinstance(st, ast.ClassDef):
                    rec(st.body, prefix + st.name + ".", st.name, None)
                elif isinstance(st, (ast.If, ast.Try, ast.With)):
                    for fld in ("body", "orelse", "finalbody"):
                        rec(getattr(st, fld, []) or [], prefix, cls, outer)

        def rec_nested(fnode, prefix, cls, outer):
            for n in ast.walk(fnode):
                if n is fnode:
                    continue
                if isinstance(n, (ast.FunctionDef, ast.AsyncFunctionDef)):
                    # direct nesting only: find nearest enclosing def
                    pass
            # walk statements to find directly nested defs (at any block depth)
            def blocks(stmts):
                for st in stmts:
                    if isinstance(st, (ast.FunctionDef, ast.AsyncFunctionDef)):
                        q = prefix + st.name
                        fn = Fn(self, m, st, q, cls=cls, outer=outer)
                        self.fns[(m.name, q)] = fn
                        self.by_qual.setdefault(q, []).append(fn)
                        rec_nested(st, q + ".", cls, fn)
                    else:
                        for fld in ("body", "orelse", "finalbody", "handlers"):
                            sub = getattr(st, fld, None)
                            if sub:
                                if fld == "handlers":
                                    for h in sub:
                                        blocks(h.body)
                                else:
                                    blocks(sub)
            blocks(fnode.body)

        rec(m.tree.body, "", None, None)

    # ---- anchors -------------------------------------------------------------------------------
    def fn(self, qualname, module=None):
        """Resolve an API-level anchor; a vanished or ambiguous anchor is an analysis error."""
        cands = self.by_qual.get(qualname, [])
        if module is not None:
            pref = [f for f in cands if f.module.name == module]
            if pref:
                cands = pref
        if not cands:
            raise AnalysisError("anchor function %s not found in package %s" % (qualname, PKG))
        if len(cands) > 1:
            raise AnalysisError("anchor function %s is ambiguous: %s" % (qualname, [f.module.name for f in cands]))
        return cands[0]

    def maybe_fn(self, qualname):
        c = self.by_qual.get(qualname, [])
        return c[0] if len(c) == 1 else None

    def nested(self, outer, name):
        return self.fn(outer.qualname + "." + name, module=outer.module.name)

    def all_fns(self):
        return list(self.fns.values())

    def module(self, name):
        if name not in self.modules:
            raise AnalysisError("module %s not found" % name)
        return self.modules[name]

    def table(self, name):
        """Find a module-level literal table by name anywhere in the package."""
        hits = []
        for m in self.modules.values():
            v = m.top_assign(name)
            if v is not None:
                hits.append((m, v))
        if not hits:
            raise AnalysisError("table %s not found" % name)
        if len(hits) > 1:
            raise AnalysisError("table %s defined in several modules" % name)
        return hits[0]

    @property
    def effects(self):
        if "effects" not in self.cache:
            from .effects import Effects
            self.cache["effects"] = Effects(self)
        return self.cache["effects"]

    def stats(self):
        ncalls = 0
        nsubs = 0
        for m in self.modules.values():
            for n in ast.walk(m.tree):
                if isinstance(n, ast.Call):
                    ncalls += 1
                elif isinstance(n, ast.Subscript):
                    nsubs += 1
        return {"modules": len(self.modules), "functions": len(self.fns), "call_sites": ncalls, "subscripts": nsubs}


# ---- small AST helpers used everywhere ---------------------------------------------------------
def call_name(call):
    """Terminal name of a call's callee: ``f(...)`` -> f, ``a.b.c(...)`` -> c."""
    f = call.func
    if isinstance(f, ast.Name):
        return f.id
    if isinstance(f, ast.Attribute):
        return f.attr
    return None


def dotted(expr):
    """``a.b.c`` -> "a.b.c" for Name/Attribute chains, else None."""
    parts = []
    n = expr
    while isinstance(n, ast.Attribute):
        parts.append(n.attr)
        n = n.value
    if isinstance(n, ast.Name):
        parts.append(n.id)
        return ".".join(reversed(parts))
    return None


def is_self_attr(expr, attr=None):
    return (isinstance(expr, ast.Attribute) and isinstance(expr.value, ast.Name) and expr.value.id == "self"
            and (attr is None or expr.attr == attr))


def names_in(node):
    return {n.id for n in ast.walk(node) if isinstance(n, ast.Name)}


def kwarg(call, name):
    for k in call.keywords:
        if k.arg == name:
            return k.value
    return None


def get_arg(call, fn_params, name):
    """Argument bound to parameter ``name`` at a call site of a function with ``fn_params``."""
    v = kwarg(call, name)
    if v is not None:
        return v
    if name in fn_params:
        i = fn_params.index(name)
        if i < len(call.args) and not any(isinstance(a, ast.Starred) for a in call.args[: i + 1]):
            return call.args[i]
    return None
