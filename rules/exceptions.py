"""Frozen exception table: one named construct per entry with one line of reason.
Keys are rule + function + normalised construct text (never line numbers)."""

# B1: {function: {(kind, text fragment that identifies the construct): reason}}
B1_EXCEPTIONS = {
    "Atoms.load_lmpdat": {
        ("angle", "'  '.join("): "Angle Coeffs tokens are re-joined with two spaces instead of one: whitespace only, "
                                         "the token sequence is identical and the writer reproduces the text verbatim",
    },
}
