"""Family B: sibling agreement (per-kind blocks, per-axis windows, assign_* pipeline, offsets tuple)."""
import ast
import re

from .common import (Ob, AnalysisError, call_name, dotted, kwarg, get_arg, names_in, expand, nf, nf_expanded, same,
                     contains_nf, calls_in, calls_named, method_calls_on, floor, norm_guards, const_value, KINDS, ARITY,
                     kind_of, is_self_attr, OFFSET_SLOT)
from verif_sa import siblings as sib
from .exceptions import B1_EXCEPTIONS

B1_FUNCS = [
    # (qualname, kinds compared, minimum number of per-kind pieces)
    ("Atoms.__init__", KINDS, 8),
    ("Atoms.assert_arrays_are_consistent_sizes", KINDS, 3),
    ("Atoms.extend_types", KINDS, 2),
    ("Atoms._extend_extra_fields", KINDS, 3),
    ("Atoms.extend", KINDS, 2),
    ("Atoms.__delitem__", KINDS, 1),
    ("Atoms.save_lmpdat", KINDS, 4),
    ("Atoms.load_lmpdat", KINDS, 8),
    ("Atoms.load_p1_cif", ("bond", "angle", "dihedral"), 6),
    ("Atoms.save_p1_cif", ("bond", "angle"), 1),
]


def B1_kind_blocks(repo, clause, funcs=None):
    obs = []
    for q, ks, need in B1_FUNCS:
        if funcs is not None and q not in funcs:
            continue
        fn = repo.fn(q)
        notes = []
        buckets = sib.collect_buckets(fn.node.body, notes)
        ks = [k for k in ks]
        counts = {k: len(buckets[k]) for k in ks}
        buckets = sib.align(buckets, ks)
        n = min(counts.values())
        if max(counts.values()) < need:
            raise AnalysisError("B1: %s has only %d per-kind pieces (floor %d): %s" % (q, max(counts.values()), need, counts))
        exc = B1_EXCEPTIONS.get(q, {})
        if len(set(counts.values())) > 1:
            obs.append(Ob("B1", clause, fn, fn.node, False,
                          "the kinds do not have the same number of code pieces: %s (a step is missing or duplicated for one kind)" % counts,
                          construct="def %s" % fn.name, slot="piece-count", positive=n >= need))
        for i in range(n):
            pieces = {k: buckets[k][i] for k in ks}
            devs = sib.compare_pieces(pieces, ks)
            p0 = pieces[ks[0]]
            text = sib.norm_ident(re.sub(r"\s+", " ", ast.unparse(p0.node))[:100], ks[0])
            slot = "piece:%s" % text
            ok = not devs
            detail = "the %d kinds agree on this piece up to kind name, arity %s and offset slot %s" % (
                len(ks), tuple(ARITY[k] for k in ks), tuple(OFFSET_SLOT[k] for k in ks))
            if devs:
                reason = None
                for (ekind, etext), why in exc.items():
                    if any(etext in ast.unparse(pieces[k].node) for k in ks if k == ekind):
                        reason = why
                if reason is not None:
                    ok = True
                    detail = "deviation accepted by the exception table: %s" % reason
                else:
                    detail = "; ".join(devs)[:400] + " || " + " | ".join("%s@%d: %s" % (k, pieces[k].lineno, ast.unparse(pieces[k].node)[:70].replace("\n", " ")) for k in ks)
            obs.append(Ob("B1", clause, fn, p0.node if hasattr(p0.node, "lineno") else p0.origin, ok, detail,
                          construct=ast.unparse(p0.node)[:120], slot=slot, positive=len(set(counts.values())) == 1 and n >= need))
        for node, msg in notes:
            # notes about kinds that are outside the compared set (e.g. improper in a CIF function) are not deviations
            if not any(k in msg for k in ks):
                continue
            st = node
            obs.append(Ob("B1", clause, fn, st if hasattr(st, "lineno") else fn.node, False, msg.replace("NESTED-KIND: ", ""), slot="foreign:%s" % re.sub(r"\s+", " ", ast.unparse(node))[:80],
                          positive="robust" if msg.startswith("NESTED-KIND: ") else n >= need))
    # the four num_K_types properties are siblings of each other
    if funcs is None or "Atoms.num_*_types" in funcs:
        pieces = {}
        for k in KINDS:
            f = repo.fn("Atoms.num_%s_types" % k)
            pieces[k] = sib.Piece(ast.Module(body=f.node.body, type_ignores=[]), f.node, "stmt")
        devs = sib.compare_pieces(pieces, list(KINDS))
        f0 = repo.fn("Atoms.num_bond_types")
        obs.append(Ob("B1", clause, f0, f0.node, not devs,
                      "num_bond/angle/dihedral/improper_types compute the count the same way" if not devs else "; ".join(devs)[:300],
                      construct="def num_KIND_types", slot="num_types-siblings"))
    return obs


def B4_offsets_tuple(repo, clause):
    obs = []
    et = repo.fn("Atoms.extend_types")
    rets = [n for n in et.own_nodes() if isinstance(n, ast.Return)]
    if len(rets) != 1:
        raise AnalysisError("B4: extend_types should have one return")
    tup = expand(et, rets[0].value)
    if not isinstance(tup, ast.Tuple):
        raise AnalysisError("B4: extend_types does not return a literal tuple of offsets")
    order = []
    for e in tup.elts:
        t = ast.unparse(e)
        k = kind_of(t) or ("atom" if "atom" in t else None)
        order.append(k)
    want = ["atom", "bond", "angle", "dihedral", "improper"]
    obs.append(Ob("B4", clause, et, rets[0], order == want, "offsets tuple order is %s (required %s)" % (order, want), slot="tuple-order"))
    # each slot is the num_<kind>_types of self
    for i, e in enumerate(tup.elts):
        ok = is_self_attr(e, "num_%s_types" % want[i]) if i < len(want) else False
        obs.append(Ob("B4", clause, et, e, ok, "slot %d is self.num_%s_types (read before the tables are appended)" % (i, want[i] if i < len(want) else "?"),
                      slot="slot:%d" % i))
    # offsets are computed before any table append
    cfg = et.cfg
    off_stmt = None
    for n in et.own_nodes():
        if isinstance(n, ast.Assign) and isinstance(n.value, ast.Tuple) and any("num_" in ast.unparse(x) for x in n.value.elts):
            off_stmt = n
    if off_stmt is not None:
        stores = [n for n in et.own_nodes() if isinstance(n, ast.Assign) and n is not off_stmt and any(is_self_attr(t) for t in n.targets)]
        stale = [s for s in stores if cfg.reaches(s, off_stmt)]
        obs.append(Ob("B4", clause, et, off_stmt, not stale, "offsets are read before any type table is appended", slot="read-before-append"))
    # extend: subscript per kind
    ex = repo.fn("Atoms.extend")
    n_sub = 0
    for n in ex.own_nodes():
        if isinstance(n, ast.Subscript) and isinstance(n.value, ast.Name) and n.value.id == "offsets":
            idx = const_value(n.slice)
            st = ex.stmt_of(n)
            # kind of the statement = kind of the assignment target
            tgt = st.targets[0] if isinstance(st, ast.Assign) else None
            k = None
            if tgt is not None:
                t = ast.unparse(tgt)
                k = kind_of(t) or ("atom" if "atom" in t else None)
            n_sub += 1
            ok = k is not None and idx == want.index(k)
            obs.append(Ob("B4", clause, ex, st, ok, "%s types are shifted by offsets[%s] (slot of %s is %s)" % (k, idx, k, want.index(k) if k else "?"),
                          slot="extend-uses:%s" % k))
    floor("B4", "offsets[...] uses in extend", n_sub, 6)
    # literal tuples passed as offsets= have the arity extend indexes
    for fn in repo.all_fns():
        for c in calls_in(fn):
            if isinstance(c.func, ast.Attribute) and c.func.attr == "extend":
                o = kwarg(c, "offsets")
                if o is None:
                    continue
                e = expand(fn, o)
                if isinstance(e, (ast.Tuple, ast.List)):
                    ok = len(e.elts) == len(want)
                    obs.append(Ob("B4", clause, fn, c, ok,
                                  "literal offsets %s has %d entries; extend indexes offsets[0..%d] (IndexError for any structure with impropers otherwise)"
                                  % (ast.unparse(e), len(e.elts), len(want) - 1), slot="literal-offsets"))
                    zero = all(const_value(x) == 0 for x in e.elts)
                    if fn.qualname == "Atoms.replicate":
                        obs.append(Ob("B4", clause, fn, c, zero, "replication shares type ids with the original: all offsets are 0", slot="replicate-zero-offsets"))
    return obs


def B3_assign_pipeline(repo, clause):
    """assign_bond_types / assign_angle_types / assign_dihedral_types share one pipeline."""
    obs = []
    spec = {"bond": 2, "angle": 3, "dihedral": 4}
    names = {}
    for k, ar in spec.items():
        fn = repo.fn("assign_%s_types" % k)
        attr = k + "s"
        # 1. exclusion threshold = arity, guarded by `exclude is not None`
        dels = calls_named(fn, "delete_if_all_in_set")
        ok = False
        detail = "exclusion call not found"
        if len(dels) == 1:
            gs = norm_guards(fn, dels[0])
            thr = None
            notnone = False
            for t, pol, kind in gs:
                for x in ([t] if not isinstance(t, ast.BoolOp) else t.values):
                    if isinstance(x, ast.Compare) and isinstance(x.left, ast.Call) and call_name(x.left) == "len" and isinstance(x.ops[0], ast.GtE):
                        thr = const_value(x.comparators[0])
                    if is_none_test_any(x) == "isnot":
                        notnone = True
            tgt = fn.stmt_of(dels[0])
            stores = isinstance(tgt, ast.Assign) and isinstance(tgt.targets[0], ast.Attribute) and tgt.targets[0].attr == attr
            a0e = expand(fn, dels[0].args[0]) if dels[0].args else None
            src = isinstance(a0e, ast.Attribute) and a0e.attr == attr
            ok = thr == ar and notnone and stores and src
            detail = "exclusion only when an exclusion set with >= %s atoms is given (arity %d), applied to atoms.%s" % (thr, ar, attr)
        obs.append(Ob("B3", clause, fn, dels[0] if dels else fn.node, ok, detail if dels else
                      "the exclusion set is NEVER applied in %s (no call of delete_if_all_in_set): excluded %ss are typed and parameterised like all others" % (fn.qualname, k),
                      construct=None if dels else "atoms.%s = delete_if_all_in_set(atoms.%s, exclude)" % (attr, attr), slot="%s:exclusion" % k, positive=not dels))
        if len(dels) == 1:
            # the guard is the CONJUNCTION `exclude is not None and len(exclude) >= arity`, taken positively
            g_ = [(t, pol) for t, pol, kind in norm_guards(fn, dels[0]) if "exclude" in ast.unparse(t)]
            bad_g = None
            for t, pol in g_:
                if not pol:
                    bad_g = "the exclusion is applied when `%s` is FALSE" % ast.unparse(t)
                elif isinstance(t, ast.BoolOp) and isinstance(t.op, ast.Or):
                    bad_g = "`%s` is a DISJUNCTION: without an exclusion set len(None) raises, and a set smaller than a %s passes the test" % (ast.unparse(t), k)
            flat = []
            for t, pol in g_:
                flat += (t.values if isinstance(t, ast.BoolOp) and isinstance(t.op, ast.And) else [t])
            has_nn = any(is_none_test_any(x) == "isnot" for x in flat)
            has_len = any(isinstance(x, ast.Compare) and isinstance(x.left, ast.Call) and call_name(x.left) == "len" for x in flat)
            if bad_g is None and not (has_nn and has_len):
                bad_g = "guard lacks %s" % ("the `is not None` test" if not has_nn else "the size test")
            obs.append(Ob("B3", clause, fn, dels[0], bad_g is None,
                          "exclusion guard of %s: %s" % (fn.qualname, "not None AND large enough, taken positively" if bad_g is None else bad_g),
                          slot="%s:exclusion-guard" % k, positive=bad_g is not None and not bad_g.startswith("guard lacks"), undecided=bad_g is not None and bad_g.startswith("guard lacks")))
        # 2. per-term key list via typekey over per-atom UFF types
        keyl = None
        for n in fn.own_nodes():
            if isinstance(n, ast.Assign) and isinstance(n.value, ast.ListComp) and any(call_name(c) == "typekey" for c in ast.walk(n.value) if isinstance(c, ast.Call)) \
                    and isinstance(n.value.generators[0].iter, ast.Attribute) and n.value.generators[0].iter.attr == attr:
                keyl = n
        if keyl is None:
            raise AnalysisError("B3: per-term key list not found in %s" % fn.qualname)
        kname = keyl.targets[0].id
        lc = keyl.value
        g = lc.generators[0]
        tk = [c for c in ast.walk(lc.elt) if isinstance(c, ast.Call) and call_name(c) == "typekey"]
        inner = tk[0].args[0] if tk and tk[0].args else None
        ok = isinstance(inner, ast.ListComp) and isinstance(inner.elt, ast.Subscript) and isinstance(inner.elt.value, ast.Name) \
            and inner.elt.value.id in fn.params and isinstance(inner.generators[0].iter, ast.Name) and isinstance(g.target, ast.Name) \
            and inner.generators[0].iter.id == g.target.id and not g.ifs
        obs.append(Ob("B3", clause, fn, keyl, ok, "per-term key = typekey(UFF type of each atom of the term), in term order", slot="%s:key" % k))
        # exclusion happens before the key list is built
        if dels:
            obs.append(Ob("B3", clause, fn, keyl, fn.cfg.reaches(fn.stmt_of(dels[0]), keyl) and not fn.cfg.reaches(keyl, fn.stmt_of(dels[0])),
                          "keys are computed after the exclusion", slot="%s:order-exclusion" % k))
        # 3. unique list = first-seen order of the key list
        uniq = None
        for n in fn.own_nodes():
            if isinstance(n, ast.Assign) and isinstance(n.targets[0], ast.Name):
                e = n.value
                if isinstance(e, ast.Call) and call_name(e) == "list" and e.args:
                    inner_e = e.args[0]
                    txt = ast.unparse(inner_e)
                    if "dict.fromkeys(%s)" % kname in txt:
                        uniq = n
        obs.append(Ob("B3", clause, fn, uniq if uniq is not None else fn.node, uniq is not None,
                      "unique keys are taken in first-seen order from the per-term keys (dict.fromkeys)", slot="%s:unique" % k))
        if uniq is None:
            continue
        uname = uniq.targets[0].id
        # 4. per-term type id = index of its key in the unique list
        ty = [n for n in fn.own_nodes() if isinstance(n, ast.Assign) and isinstance(n.targets[0], ast.Attribute) and n.targets[0].attr == k + "_types"]
        # every result is stored on the structure that was passed in (first parameter)
        for st_ in [n for n in fn.own_nodes() if isinstance(n, ast.Assign) and isinstance(n.targets[0], ast.Attribute) and isinstance(n.targets[0].value, ast.Name)
                    and n.targets[0].attr in (k + "_types", k + "_type_coeffs", attr)]:
            recv = st_.targets[0].value.id
            obs.append(Ob("B3", clause, fn, st_, recv == fn.params[0],
                          "%s.%s is stored on %s" % (recv, st_.targets[0].attr, "the structure argument" if recv == fn.params[0] else
                                                     "`%s`, which is NOT the structure (first parameter `%s`)" % (recv, fn.params[0])),
                          slot="%s:receiver:%s" % (k, st_.targets[0].attr), positive=True))
        ok = False
        if len(ty) == 1 and isinstance(ty[0].value, ast.ListComp):
            l2 = ty[0].value
            ok = isinstance(l2.elt, ast.Call) and ast.unparse(l2.elt.func) == "%s.index" % uname and isinstance(l2.generators[0].iter, ast.Name) \
                and l2.generators[0].iter.id == kname and isinstance(l2.elt.args[0], ast.Name) and l2.elt.args[0].id == l2.generators[0].target.id \
                and not l2.generators[0].ifs
        # the same lookup through an index map {key: i for i, key in enumerate(unique)}: equivalent only if the map is built AFTER the last deletion from the unique list
        stale_map = None
        if not ok and len(ty) == 1 and isinstance(ty[0].value, ast.ListComp) and isinstance(ty[0].value.elt, ast.Subscript) and isinstance(ty[0].value.elt.value, ast.Name):
            mname_ = ty[0].value.elt.value.id
            mdef = [n for n in fn.own_nodes() if isinstance(n, ast.Assign) and any(isinstance(t_, ast.Name) and t_.id == mname_ for t_ in n.targets) and isinstance(n.value, ast.DictComp)]
            if len(mdef) == 1:
                dc_ = mdef[0].value
                g_ = dc_.generators[0]
                over_unique = isinstance(g_.iter, ast.Call) and call_name(g_.iter) == "enumerate" and g_.iter.args and isinstance(g_.iter.args[0], ast.Name) and g_.iter.args[0].id == uname
                l2 = ty[0].value
                over_keys = isinstance(l2.generators[0].iter, ast.Name) and l2.generators[0].iter.id == kname and not l2.generators[0].ifs
                if over_unique and over_keys:
                    dels_after = [d_ for d_ in fn.own_nodes() if isinstance(d_, ast.Delete) and any(isinstance(x, ast.Name) and x.id == uname for t_ in d_.targets for x in ast.walk(t_))
                                  and fn.cfg.reaches(mdef[0], d_) and fn.cfg.reaches(d_, ty[0])]
                    if dels_after:
                        stale_map = mname_
                    else:
                        ok = True
        obs.append(Ob("B3", clause, fn, ty[0] if ty else fn.node, ok, ("type id of a term = position of its key in the unique list" + (
            "" if stale_map is None else " -- looked up in the index map `%s`, which is built BEFORE entries are deleted from the unique list: the surviving terms point at stale (wrong or out-of-range) rows" % stale_map)) if ty else
                      "%s never stores atoms.%s_types: the terms keep whatever type ids they had, while the coefficient table is rebuilt" % (fn.qualname, k),
                      construct=None if ty else "atoms.%s_types = [...]" % k, slot="%s:type-ids" % k, positive=(not ty) or stale_map is not None))
        # 5. parameters computed for the unique keys in order and formatted in the same order
        par = [n for n in fn.own_nodes() if isinstance(n, ast.Assign) and isinstance(n.value, ast.ListComp)
               and any(call_name(c) == "%s_params" % k for c in ast.walk(n.value) if isinstance(c, ast.Call))]
        ok = len(par) == 1 and isinstance(par[0].value.generators[0].iter, ast.Name) and par[0].value.generators[0].iter.id == uname \
            and not par[0].value.generators[0].ifs
        obs.append(Ob("B3", clause, fn, par[0] if par else fn.node, ok, "parameters are computed once per unique key, in the order of the unique list", slot="%s:params" % k))
        if par:
            pname = par[0].targets[0].id
            names[k] = (kname, uname, pname)
            pc = [c for c in ast.walk(par[0].value) if isinstance(c, ast.Call) and call_name(c) == "%s_params" % k][0]
            rules_fwd = kwarg(pc, "bond_order_rules")
            obs.append(Ob("B3", clause, fn, pc, isinstance(rules_fwd, ast.Name) and rules_fwd.id == "bond_order_rules",
                          "user bond-order rules are forwarded to %s_params" % k, slot="%s:rules-forwarded" % k))
            co = [n for n in fn.own_nodes() if isinstance(n, ast.Assign) and isinstance(n.targets[0], ast.Attribute) and n.targets[0].attr == k + "_type_coeffs"]
            ok = len(co) == 1 and isinstance(co[0].value, ast.ListComp) and isinstance(co[0].value.generators[0].iter, ast.Name) \
                and co[0].value.generators[0].iter.id == pname and not co[0].value.generators[0].ifs
            obs.append(Ob("B3", clause, fn, co[0] if co else fn.node, ok, "coefficient strings are formatted from the parameter list in the same order" if co else
                          "%s never stores atoms.%s_type_coeffs: type ids are renumbered but the old coefficient table stays" % (fn.qualname, k),
                          construct=None if co else "atoms.%s_type_coeffs = [...]" % k, slot="%s:coeffs" % k, positive=not co))
    # dihedral specifics: multiplicity and None removal
    fn = repo.fn("assign_dihedral_types")
    cnt = [n for n in fn.own_nodes() if isinstance(n, ast.Assign) and isinstance(n.value, ast.Call) and call_name(n.value) == "Counter"]
    ok = False
    detail = "multiplicity counter not found"
    key_expr = None
    if len(cnt) == 1:
        lc = cnt[0].value.args[0]
        if isinstance(lc, ast.ListComp) and isinstance(lc.elt, ast.Call) and call_name(lc.elt) == "typekey":
            g = lc.generators[0]
            tgt = g.target
            mid = [e.id for e in tgt.elts[1:3]] if isinstance(tgt, ast.Tuple) and len(tgt.elts) == 4 and all(isinstance(e, ast.Name) for e in tgt.elts[1:3]) else None
            arg = lc.elt.args[0]
            ok = mid is not None and isinstance(arg, ast.List) and [getattr(e, "id", None) for e in arg.elts] == mid \
                and isinstance(g.iter, ast.Attribute) and g.iter.attr == "dihedrals"
            detail = "torsions per central bond are counted with an order-free key of the two middle atoms"
            cname = cnt[0].targets[0].id
            # lookup uses the same key expression on atoms 1 and 2 of the term
            look = [n for n in fn.own_nodes() if isinstance(n, ast.Subscript) and isinstance(n.value, ast.Name) and n.value.id == cname]
            ok2 = len(look) >= 1 and all(isinstance(l.slice, ast.Call) and call_name(l.slice) == "typekey" and isinstance(l.slice.args[0], ast.List)
                                         and [const_value(e.slice) if isinstance(e, ast.Subscript) else None for e in l.slice.args[0].elts] == [1, 2] for l in look)
            obs.append(Ob("B3", clause, fn, look[0] if look else fn.node, ok2, "multiplicity lookup uses the same order-free key on the term's atoms [1] and [2]", slot="dihedral:multiplicity-lookup"))
    obs.append(Ob("B3", clause, fn, cnt[0] if cnt else fn.node, ok, detail, slot="dihedral:multiplicity"))
    excl = calls_named(fn, "delete_if_all_in_set")
    if cnt and excl:
        est = fn.stmt_of(excl[0])
        before = fn.cfg.reaches(cnt[0], est) and not fn.cfg.reaches(est, cnt[0])
        obs.append(Ob("B3", clause, fn, cnt[0], before,
                      "torsions per central bond are counted over ALL torsions of the structure, i.e. before the exclusion filter removes some of them "
                      "(the multiplicity M is a property of the bond, not of the exclusion set)", slot="dihedral:multiplicity-before-exclusion"))
    # None removal: reversed index loop removes from the four parallel structures
    loops = [n for n in fn.own_nodes() if isinstance(n, ast.For) and isinstance(n.iter, ast.Call) and call_name(n.iter) == "reversed"]
    ok = False
    detail = "removal loop (reversed index order) not found"
    if len(loops) == 1 and "dihedral" in names and isinstance(loops[0].target, ast.Name):
        from .common import eq_const
        K, U, Pn = names["dihedral"]
        lp = loops[0]
        I = lp.target.id
        rng = lp.iter.args[0]
        iter_ok = isinstance(rng, ast.Call) and call_name(rng) == "range" and len(rng.args) == 1 and ast.unparse(rng.args[0]) == "len(%s)" % Pn
        body = [s2 for s2 in ast.walk(lp) if isinstance(s2, ast.stmt) and s2 is not lp]
        tests = [c for c in ast.walk(lp) if isinstance(c, ast.Compare) and isinstance(c.ops[0], (ast.Is, ast.IsNot)) and const_value(c.comparators[0]) is None
                 and ast.unparse(c.left).startswith("%s[%s]" % (Pn, I))]
        read = [s2 for s2 in body if isinstance(s2, ast.Assign) and isinstance(s2.targets[0], ast.Name) and ast.unparse(s2.value) == "%s[%s]" % (U, I)]
        Dn = read[0].targets[0].id if read else None

        def ne_D(c, other_pred):
            if isinstance(c, ast.Compare) and len(c.ops) == 1 and isinstance(c.ops[0], ast.NotEq):
                sides = [c.left, c.comparators[0]]
                return any(isinstance(x, ast.Name) and x.id == Dn for x in sides) and any(other_pred(x) for x in sides)
            return False
        terms = keys = None
        for s2 in body:
            if isinstance(s2, ast.Assign) and isinstance(s2.value, ast.ListComp) and len(s2.value.generators) == 1 and len(s2.value.generators[0].ifs) == 1:
                g = s2.value.generators[0]
                t = s2.targets[0]
                if isinstance(t, ast.Attribute) and t.attr == "dihedrals" and isinstance(g.iter, ast.Call) and call_name(g.iter) == "enumerate" \
                        and ast.unparse(g.iter.args[0]) == ast.unparse(t) and isinstance(g.target, ast.Tuple):
                    j, d = g.target.elts[0].id, g.target.elts[1].id
                    if ne_D(g.ifs[0], lambda x: ast.unparse(x) == "%s[%s]" % (K, j)) and ast.unparse(s2.value.elt) == d:
                        terms = s2
                elif isinstance(t, ast.Name) and t.id == K and isinstance(g.iter, ast.Name) and g.iter.id == K and isinstance(g.target, ast.Name):
                    if ne_D(g.ifs[0], lambda x: isinstance(x, ast.Name) and x.id == g.target.id) and ast.unparse(s2.value.elt) == g.target.id:
                        keys = s2
        dels = {}
        for s2 in body:
            if isinstance(s2, ast.Delete):
                for t in s2.targets:
                    for x in (t.elts if isinstance(t, ast.Tuple) else [t]):
                        dels[ast.unparse(x)] = s2
        del_u = dels.get("%s[%s]" % (U, I))
        del_p = dels.get("%s[%s]" % (Pn, I))
        all_found = iter_ok and bool(tests) and bool(read) and terms is not None and keys is not None and del_u is not None and del_p is not None
        detail = "undefined torsions are removed consistently: index loop over the parameter list=%s, test `is None`=%s, terms filtered=%s, per-term keys filtered=%s, unique key deleted=%s, parameter row deleted=%s" % (
            iter_ok, bool(tests), terms is not None, keys is not None, del_u is not None, del_p is not None)
        ok = all_found
        if all_found:
            pos = {id(s2): i for i, s2 in enumerate(sorted(body, key=lambda x: (x.lineno, x.col_offset)))}
            order_ok = pos[id(read[0])] < pos[id(terms)] < pos[id(keys)] and pos[id(read[0])] < pos[id(del_u)]
            # effective condition "the parameter row IS None": `is None` taken positively or `is not None` taken negatively (early continue)
            guarded = all(any(any(x is tests[0] for x in ast.walk(t)) and (isinstance(tests[0].ops[0], ast.Is) == bool(pol)) and (t is tests[0])
                              for t, pol, kk in norm_guards(fn, s2)) for s2 in (terms, keys, del_u, del_p))
            ok = order_ok and guarded
            detail += "; key is read before the unique entry is deleted and terms are filtered (by the old per-term keys) before the keys themselves=%s; all under the None test=%s" % (order_ok, guarded)
    removed_stage = False
    if len(loops) == 1:
        lp_ = loops[0]
        st_d = [x for x in ast.walk(lp_) if isinstance(x, ast.Assign) and isinstance(x.targets[0], ast.Attribute) and x.targets[0].attr == "dihedrals"]
        dl_ = [x for x in ast.walk(lp_) if isinstance(x, ast.Delete)]
        if not st_d:
            removed_stage = True
            detail += " -- atoms.dihedrals is NOT filtered in the removal loop: undefined torsions stay in the structure while their types are removed (terms and types fall out of step)"
        elif len(dl_) < 2 and not (del_u is not None and del_p is not None):
            removed_stage = True
            detail += " -- the unique key / parameter row of an undefined torsion is not deleted"
    obs.append(Ob("B3", clause, fn, loops[0] if loops else fn.node, ok, detail, slot="dihedral:none-removal", positive=removed_stage))
    # delete_if_all_in_set: a row is removed iff ALL of its atoms are in the set.  The selection predicate (guard of the index append, filter of the index
    # comprehension, or element of a boolean mask) is evaluated over six abstract rows - (), (in), (out), (in,in), (in,out), (out,out) - against the set {in}:
    # rows and the set are touched only through set algebra and membership, so these representatives decide the quantifier.
    d = repo.fn("delete_if_all_in_set")
    arr_p, set_p = d.params[0], d.params[1]
    pred, rowvar, anchor = None, None, d.node
    for n in d.own_nodes():
        if isinstance(n, ast.For) and any(isinstance(x, ast.Name) and x.id == arr_p for x in ast.walk(n.iter)):
            tv = n.target.elts[1] if isinstance(n.target, ast.Tuple) and len(n.target.elts) == 2 else n.target
            apps = [c for c in ast.walk(n) if isinstance(c, ast.Call) and isinstance(c.func, ast.Attribute) and c.func.attr == "append"]
            if isinstance(tv, ast.Name) and len(apps) == 1:
                gs = [(t, pol) for t, pol, k in norm_guards(d, apps[0], stop=n)]
                if gs:
                    rowvar, anchor = tv.id, n
                    pred = ("and", gs)
        if isinstance(n, (ast.ListComp, ast.GeneratorExp)) and len(n.generators) == 1 and any(isinstance(x, ast.Name) and x.id == arr_p for x in ast.walk(n.generators[0].iter)):
            g = n.generators[0]
            tv = g.target.elts[1] if isinstance(g.target, ast.Tuple) and len(g.target.elts) == 2 else g.target
            if isinstance(tv, ast.Name):
                if g.ifs and isinstance(n.elt, ast.Name):
                    pred, rowvar, anchor = ("and", [(t, True) for t in g.ifs]), tv.id, n
                elif not g.ifs and not isinstance(n.elt, ast.Name):
                    pred, rowvar, anchor = ("and", [(n.elt, True)]), tv.id, n

    class _U(Exception):
        pass

    def _sv(e, env):
        if isinstance(e, ast.Name):
            if e.id in env:
                return env[e.id]
            raise _U(e.id)
        if isinstance(e, ast.Constant):
            return e.value
        if isinstance(e, ast.Call):
            f = call_name(e)
            if isinstance(e.func, ast.Name) and f in ("set", "frozenset", "tuple", "list", "len", "all", "any", "bool", "sorted") and len(e.args) == 1 and not e.keywords:
                a0 = e.args[0]
                if f in ("all", "any") and isinstance(a0, (ast.GeneratorExp, ast.ListComp)) and len(a0.generators) == 1 and isinstance(a0.generators[0].target, ast.Name):
                    g = a0.generators[0]
                    vals = []
                    for item in _sv(g.iter, env):
                        e2 = dict(env, **{g.target.id: item})
                        if all(_sv(c, e2) for c in g.ifs):
                            vals.append(_sv(a0.elt, e2))
                    return all(vals) if f == "all" else any(vals)
                v = _sv(a0, env)
                return {"set": set, "frozenset": frozenset, "tuple": tuple, "list": list, "len": len, "all": all, "any": any, "bool": bool, "sorted": sorted}[f](v)
            if isinstance(e.func, ast.Attribute) and f in ("issubset", "issuperset", "difference", "intersection", "isdisjoint", "union") and len(e.args) == 1:
                recv = _sv(e.func.value, env)
                if not isinstance(recv, (set, frozenset)):
                    raise _U("method on non-set")
                return getattr(recv, f)(_sv(e.args[0], env))
            raise _U("call " + str(f))
        if isinstance(e, ast.UnaryOp) and isinstance(e.op, ast.Not):
            return not _sv(e.operand, env)
        if isinstance(e, ast.BoolOp):
            vals = [_sv(v, env) for v in e.values]
            return all(vals) if isinstance(e.op, ast.And) else any(vals)
        if isinstance(e, ast.BinOp) and isinstance(e.op, (ast.Sub, ast.BitAnd, ast.BitOr, ast.BitXor)):
            l_, r_ = _sv(e.left, env), _sv(e.right, env)
            if not isinstance(l_, (set, frozenset)) or not isinstance(r_, (set, frozenset)):
                raise _U("set operator on non-sets")
            return {ast.Sub: l_ - r_, ast.BitAnd: l_ & r_, ast.BitOr: l_ | r_, ast.BitXor: l_ ^ r_}[type(e.op)]
        if isinstance(e, ast.Compare) and len(e.ops) == 1:
            l_, r_ = _sv(e.left, env), _sv(e.comparators[0], env)
            op = type(e.ops[0])
            if op in (ast.In, ast.NotIn):
                return (l_ in r_) == (op is ast.In)
            try:
                return {ast.Eq: l_ == r_, ast.NotEq: l_ != r_, ast.Lt: l_ < r_, ast.LtE: l_ <= r_, ast.Gt: l_ > r_, ast.GtE: l_ >= r_}[op]
            except (KeyError, TypeError):
                raise _U("comparison")
        raise _U(type(e).__name__)
    verdict, why = None, "selection predicate of delete_if_all_in_set not recognised"
    if pred is None:
        # vectorised form: a row mask computed from the whole array (np.isin ... .all(axis=1)) selects the rows that are kept (arr[mask]) or removed (np.delete / arr[~mask]).
        # The function body is evaluated on a small matrix of abstract rows against the set {in, in2}.
        from .common import eval_small, Undecidable, Mat, Vec
        rets_v = sorted([n for n in d.own_nodes() if isinstance(n, ast.Return) and n.value is not None], key=lambda n: n.lineno)
        rows = [("in", "in2"), ("in", "out"), ("out", "out2"), ("in2", "in"), ("out", "in")]
        want_deleted = [all(x in ("in", "in2") for x in r) for r in rows]
        try:
            if not rets_v:
                raise Undecidable("no return")
            rv = expand(d, rets_v[-1].value)
            env0 = {arr_p: Mat(Vec(r) for r in rows), set_p: frozenset(("in", "in2"))}
            kept = None
            if isinstance(rv, ast.Subscript) and ast.unparse(expand(d, rv.value)) in (arr_p, "np.asarray(%s)" % arr_p, "np.array(%s)" % arr_p):
                m = eval_small(rv.slice, env0)
                if isinstance(m, Vec) and len(m) == len(rows) and all(isinstance(x, bool) for x in m):
                    kept = [bool(x) for x in m]
                elif isinstance(m, tuple) and all(isinstance(x, int) and not isinstance(x, bool) for x in m):
                    kept = [i in m for i in range(len(rows))]
            elif isinstance(rv, ast.Call) and call_name(rv) == "delete" and len(rv.args) >= 2:
                m = eval_small(rv.args[1], env0)
                if isinstance(m, Vec) and all(isinstance(x, bool) for x in m):
                    kept = [not x for x in m]
                elif isinstance(m, tuple):
                    kept = [i not in m for i in range(len(rows))]
            if kept is None:
                raise Undecidable("result is not a row selection of the argument")
            deleted = [not k for k in kept]
            badr = [rows[i] for i in range(len(rows)) if deleted[i] != want_deleted[i]]
            verdict = not badr
            anchor = rets_v[-1]
            why = "row mask `%s` evaluated on five abstract rows: %s" % (ast.unparse(rv)[:60], "a row is removed exactly when all of its atoms are in the set" if not badr else
                                                                         "WRONG for rows %s (a term with only SOME atoms in the exclusion set is removed, or one with all atoms in it is kept)" % badr)
            flows_vec = True
        except Undecidable as e_:
            why = "selection of delete_if_all_in_set is outside the table language (%s)" % e_
            flows_vec = False
    if pred is not None:
        rows = [(), ("in",), ("out",), ("in", "in2"), ("in", "out"), ("out", "out2")]
        try:
            bad = []
            for row in rows:
                env = {rowvar: row, set_p: {"in", "in2"}}
                got = all(bool(_sv(expand(d, t), env)) == pol for t, pol in pred[1])
                if got != all(x in env[set_p] for x in row):
                    bad.append(row)
            verdict = not bad
            why = "selection predicate `%s` evaluated on six abstract rows: %s" % (
                " and ".join(("" if pol else "not ") + ast.unparse(t) for t, pol in pred[1])[:80],
                "a row is selected exactly when all of its atoms are in the set" if not bad else
                "WRONG for rows %s (a term with only SOME atoms in the exclusion set is removed, or one with all atoms in it is kept)" % bad)
        except _U as e_:
            why = "selection predicate of delete_if_all_in_set is outside the set-algebra language (%s)" % e_
    dels = [c for c in calls_in(d) if call_name(c) == "delete" and len(c.args) >= 2]
    rets_d = [n for n in d.own_nodes() if isinstance(n, ast.Return)]
    flows = False
    if len(dels) == 1 and len(rets_d) == 1 and any(x is dels[0] for x in ast.walk(expand(d, rets_d[0].value))) or (len(dels) == 1 and len(rets_d) == 1 and any(x is dels[0] for x in ast.walk(rets_d[0].value))):
        sel_arg = dels[0].args[1]
        ex = expand(d, sel_arg)
        if isinstance(anchor, (ast.ListComp, ast.GeneratorExp)):
            flows = any(x is anchor for x in ast.walk(ex)) or ast.unparse(anchor) in ast.unparse(ex)
        elif isinstance(anchor, ast.For):
            apps_ = [c for c in ast.walk(anchor) if isinstance(c, ast.Call) and isinstance(c.func, ast.Attribute) and c.func.attr == "append" and isinstance(c.func.value, ast.Name)]
            flows = bool(apps_) and isinstance(sel_arg, ast.Name) and sel_arg.id == apps_[0].func.value.id
        flows = flows and ast.unparse(dels[0].args[0]) == arr_p
    if verdict is not None and not flows and not (pred is None and locals().get("flows_vec")):
        verdict, why = None, why + "; but the selected rows are not (recognisably) what np.delete removes from the array"
    obs.append(Ob("B3", clause, d, anchor, verdict is True, "a term is excluded iff all of its atoms are in the exclusion set: " + why, slot="exclusion-quantifier",
                  positive=verdict is False, undecided=verdict is None))
    # the rows that pass the test are recorded and removed along axis 0 of the term array
    apps = [c for c in calls_in(d) if isinstance(c.func, ast.Attribute) and c.func.attr in ("append", "add")]
    dl = [c for c in calls_in(d) if call_name(c) == "delete"]
    comp = [x for x in d.own_nodes() if isinstance(x, (ast.ListComp,)) and x.generators and x.generators[0].ifs]
    mask = any(isinstance(x, ast.Subscript) and isinstance(x.ctx, ast.Load) and isinstance(x.slice, (ast.UnaryOp, ast.Name, ast.Call)) for x in d.own_nodes())
    if dl:
        c = dl[0]
        lst = c.args[1] if len(c.args) > 1 else kwarg(c, "obj")
        recorded = bool(apps) or bool(comp) or (lst is not None and not isinstance(lst, ast.Name))
        if not recorded and isinstance(lst, ast.Name):
            # the selector is a local computed in one go (a boolean mask, an index array): recorded unless that local is (still) the empty list
            try:
                lv = expand(d, lst)
            except Exception:
                lv = lst
            recorded = not (isinstance(lv, ast.Name) or (isinstance(lv, ast.List) and not lv.elts))
        obs.append(Ob("B3", clause, d, c, recorded,
                      "rows that pass the test are %s" % ("recorded for deletion" if recorded else
                                                         "NEVER recorded (no append to `%s`): nothing is excluded" % (ast.unparse(lst) if lst is not None else "?")),
                      slot="exclusion-recorded", positive=not recorded))
        ax = kwarg(c, "axis") if kwarg(c, "axis") is not None else (c.args[2] if len(c.args) > 2 else None)
        arr_first = bool(c.args) and isinstance(c.args[0], ast.Name) and c.args[0].id == d.params[0]
        obs.append(Ob("B3", clause, d, c, ax is not None and const_value(ax) == 0 and arr_first,
                      "np.delete removes whole rows of the term array: %s" % (
                          "array first, axis=0" if (ax is not None and const_value(ax) == 0 and arr_first) else (
                              "NO axis argument - np.delete then flattens the (n, k) term array and removes single atom indices" if ax is None else
                              ("axis=%s" % ast.unparse(ax) if arr_first else "the first argument is `%s`, not the term array" % ast.unparse(c.args[0])))),
                      slot="exclusion-delete-rows", positive=True))
    elif not mask and not comp:
        obs.append(Ob("B3", clause, d, d.node, False, "delete_if_all_in_set no longer removes rows (no np.delete, no mask, no filter)", construct="def delete_if_all_in_set",
                      slot="exclusion-delete-rows", undecided=True))
    return obs


def is_none_test_any(x):
    if isinstance(x, ast.Compare) and len(x.ops) == 1 and isinstance(x.comparators[0], ast.Constant) and x.comparators[0].value is None:
        if isinstance(x.ops[0], ast.IsNot):
            return "isnot"
        if isinstance(x.ops[0], ast.Is):
            return "is"
    return None


def B5_bond_order_arms(repo, clause):
    """Sibling arms of guess_bond_order that test `types <= {one hybridisation class}` must agree in their other conjuncts."""
    fn = repo.fn("guess_bond_order")
    obs = []
    arms = []
    for n in fn.own_nodes():
        if isinstance(n, ast.If):
            from .common import strip_not
            tt, _pol = strip_not(n.test, True)
            conj = tt.values if isinstance(tt, ast.BoolOp) and isinstance(tt.op, ast.And) else [tt]
            sub = [c for c in conj if isinstance(c, ast.Compare) and len(c.ops) == 1 and isinstance(c.ops[0], ast.LtE) and isinstance(c.comparators[0], ast.Set)]
            if len(sub) == 1:
                rest = sorted(repr(nf(c)) for c in conj if c is not sub[0])
                arms.append((n, sub[0], rest))
    floor("B5", "hybridisation-class arms of guess_bond_order", len(arms), 2)
    ref = arms[0][2]
    for n, sub, rest in arms:
        ok = rest == ref and bool(rest)
        obs.append(Ob("B5", clause, fn, n, ok,
                      "arm `%s`: the class test is combined with %s; sibling arms combine it with %s (same-type pairs only)" % (
                          ast.unparse(n.test)[:80], rest or "NOTHING", ref), slot="arm:%s" % ",".join(sorted(str(const_value(x)) for x in sub.comparators[0].elts))))
    return obs


def B6_uff_key_prefix(repo, clause, funcs=None):
    """Every lookup of UFF keys by element passes the element padded to the two-character element field."""
    obs = []
    n = 0
    for fn in repo.all_fns():
        if funcs is not None and fn.qualname not in funcs:
            continue
        for c in calls_named(fn, "uff_key_starts_with"):
            if not c.args:
                continue
            n += 1
            e = expand(fn, c.args[0])
            txt = ast.unparse(e)
            padded = any(isinstance(x, ast.Call) and isinstance(x.func, ast.Attribute) and x.func.attr == "ljust" and len(x.args) == 2
                         and const_value(x.args[0]) == 2 and const_value(x.args[1]) == "_" for x in ast.walk(e))
            obs.append(Ob("B6", clause, fn, c, padded,
                          "UFF key prefix `%s` %s: an unpadded one-letter element (S, B, I, ...) also matches the keys of two-letter elements (Si, Be, In, ...)" % (
                              txt[:60], "is padded with '_' to two characters" if padded else "is NOT padded to the two-character element field"),
                          slot="prefix:%s" % fn.qualname))
    floor("B6", "uff_key_starts_with call sites", n, 1 if funcs else 3)
    return obs


def B2_axis_runs(repo, clause, funcs=None):
    """Three sibling expressions that differ only in one integer (x/y/z columns, label_1..label_3, rows 0..2) must use
    consecutive integers: a repeated or skipped axis index is a copy/paste slip."""
    from verif_sa.siblings import _template
    obs = []
    n = 0
    for fn in repo.all_fns():
        if funcs is not None and fn.qualname not in funcs:
            continue
        for node in fn.own_nodes():
            elts = None
            if isinstance(node, (ast.List, ast.Tuple)) and 3 <= len(node.elts) <= 4:
                elts = node.elts
            elif isinstance(node, ast.BoolOp) and len(node.values) == 3:
                elts = node.values
            if elts is None or any(isinstance(e, (ast.Constant, ast.Name, ast.Starred)) for e in elts):
                continue
            temps = [_template(e) for e in elts]
            if len({t for t, h in temps}) != 1 or any(len(h) < 1 for t, h in temps):
                continue
            # every hole position must either be constant across the siblings or run k, k+1, k+2
            nh = len(temps[0][1])
            if any(len(h) != nh for t, h in temps):
                continue
            cols = list(zip(*[[v for _, v in h] for t, h in temps]))
            varying = [c for c in cols if len(set(c)) > 1]
            if len({tuple(c) for c in varying}) != 1:
                continue      # indices vary in different ways (e.g. tilt entries, normal/row pairings): other rules judge those
            n += 1
            c0 = list(varying[0])
            ok = c0 == list(range(c0[0], c0[0] + len(c0))) or c0 == list(range(c0[0], c0[0] - len(c0), -1))
            obs.append(Ob("B2", clause, fn, node, ok,
                          "sibling expressions differ only in the integer(s) %s: %s" % (
                              [list(c) for c in varying], "consecutive" if ok else "NOT consecutive (an axis/label index is repeated or skipped)"),
                          slot="run:%s" % re.sub(r"\s+", " ", ast.unparse(elts[0]))[:60], positive=True))
    # a hand-written run that was folded into a loop over the axes / labels agrees with itself by construction: such loops count towards the coverage floor
    n_loops = 0
    for fn in repo.all_fns():
        if funcs is not None and fn.qualname not in funcs:
            continue
        for node in fn.all_nodes():
            it = node.iter if isinstance(node, (ast.For, ast.comprehension)) else None
            if it is None:
                continue
            if isinstance(it, ast.Call) and call_name(it) in ("zip", "enumerate") and it.args:
                it = it.args[0]
            if (isinstance(it, ast.Call) and call_name(it) == "range" and len(it.args) == 1 and const_value(it.args[0]) in (3, 4)) or \
                    (isinstance(it, (ast.Tuple, ast.List)) and 3 <= len(it.elts) <= 4) or (isinstance(it, ast.Constant) and isinstance(it.value, str) and 3 <= len(it.value) <= 4):
                n_loops += 1
    floor("B2", "axis/label runs (or loops over the axes)", n + n_loops, 1 if funcs else 4)
    return obs


def G1_no_swallowed_errors(repo, clause, modules=("mofun.atoms", "mofun.mofun", "mofun.helpers", "mofun.detect_bonds", "mofun.rough_uff")):
    """No exception handler silently discards an error: every `except` either re-raises, or replaces the value it guards
    (the one documented fallback in load_lmpdat)."""
    obs = []
    n = 0
    for fn in repo.all_fns():
        if fn.module.name not in modules:
            continue
        for t in [x for x in fn.own_nodes() if isinstance(x, ast.Try)]:
            for h in t.handlers:
                n += 1
                body = [s for s in h.body if not (isinstance(s, ast.Expr) and isinstance(s.value, ast.Call) and call_name(s.value) == "print")]
                silent = all(isinstance(s, (ast.Pass, ast.Continue)) for s in body) or not body
                assigned_in_try = {x.id for b in t.body for x in ast.walk(b) if isinstance(x, ast.Name) and isinstance(x.ctx, ast.Store)}
                assigned_in_handler = {x.id for b in h.body for x in ast.walk(b) if isinstance(x, ast.Name) and isinstance(x.ctx, ast.Store)}
                reraises = any(isinstance(x, ast.Raise) for b in h.body for x in ast.walk(b))
                ok = (not silent) and (reraises or bool(assigned_in_try & assigned_in_handler))
                obs.append(Ob("G1", clause, fn, h, ok,
                              "exception handler in %s %s" % (fn.qualname, "re-raises or supplies the documented fallback value for %s" % sorted(assigned_in_try & assigned_in_handler)
                                                              if ok else "SWALLOWS the error (pass/continue or no replacement value): a failure is turned into silent corruption"),
                              slot="handler:%s" % fn.qualname, positive=True))
    obs.append(Ob("G1", clause, repo.fn("replace_pattern_in_structure"), repo.fn("replace_pattern_in_structure").node, True,
                  "%d exception handlers in the library modules inspected" % n, construct="try/except inventory", slot="inventory"))
    return obs


def B7_terms_types_coeffs_together(repo, clause, funcs=("assign_bond_types", "assign_angle_types", "assign_dihedral_types")):
    """The three attributes of a kind of term (`<k>s`, `<k>_types`, `<k>_type_coeffs`) describe one thing.  A function that re-assigns the term list of its Atoms argument
    (after the exclusion filter, after dropping zero-strength dihedrals) must, on EVERY path from that store to a normal return, also store the per-term types and the
    coefficient table computed from the new list; an early `return` in between leaves the old types / coefficients of the unfiltered list in place (path rule on the
    statement CFG: must-pass-through)."""
    obs = []
    n = 0
    for q in funcs:
        fn = repo.fn(q)
        stores = {}
        for st in fn.own_nodes():
            tg = []
            if isinstance(st, ast.Assign):
                tg = st.targets
            elif isinstance(st, ast.AugAssign):
                tg = [st.target]
            for t in tg:
                if isinstance(t, ast.Attribute) and isinstance(t.value, ast.Name) and t.value.id in fn.params:
                    stores.setdefault((t.value.id, t.attr), []).append(st)
        for (obj, attr), sts in sorted(stores.items()):
            m = re.fullmatch(r"(bond|angle|dihedral|improper)s", attr)
            if not m:
                continue
            k = m.group(1)
            for need in ("%s_types" % k, "%s_type_coeffs" % k):
                via = stores.get((obj, need), [])
                for st in sts:
                    n += 1
                    if not via:
                        obs.append(Ob("B7", clause, fn, st, False, "%s re-assigns %s.%s but never stores %s.%s" % (q, obj, attr, obj, need), slot="together:%s:%s" % (q, need)))
                        continue
                    ok = fn.cfg.must_pass(st, via, fn.cfg.EXIT)
                    obs.append(Ob("B7", clause, fn, st, ok,
                                  "every normal return of %s after `%s` passes a store of %s.%s%s" % (
                                      q, ast.unparse(st)[:50], obj, need, "" if ok else ": NO - a return in between leaves the types / coefficients of the OLD term list in place"),
                                  slot="together:%s:%s:%s" % (q, need, ast.unparse(st)[:30]), positive="robust"))
    floor("B7", "term-list stores followed to the exits", n, 6)
    return obs
