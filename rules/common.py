"""Helpers shared by the rule families."""
import ast
import re

from verif_sa.core import AnalysisError, Ob, norm_text
from verif_sa.facts import call_name, dotted, is_self_attr, kwarg, get_arg, names_in
from verif_sa.dataflow import expand, nf, nf_expanded, same, contains_nf, PARAM
from verif_sa.cfg import guards

KINDS = ("bond", "angle", "dihedral", "improper")
ARITY = {"bond": 2, "angle": 3, "dihedral": 4, "improper": 4}
OFFSET_SLOT = {"atom": 0, "bond": 1, "angle": 2, "dihedral": 3, "improper": 4}


def kind_of(text):
    """Kind token in an identifier or string ('torsion' is the CIF alias of dihedral)."""
    t = text.lower()
    found = [k for k in KINDS if k in t]
    if "torsion" in t and "dihedral" not in found:
        found.append("dihedral")
    return found[0] if len(found) == 1 else None


def calls_in(fn, pred=None, nodes=None):
    out = []
    for n in (nodes if nodes is not None else fn.own_nodes()):
        if isinstance(n, ast.Call) and (pred is None or pred(n)):
            out.append(n)
    out.sort(key=lambda n: (n.lineno, n.col_offset))
    return out


def calls_named(fn, name, nodes=None):
    return calls_in(fn, lambda c: call_name(c) == name, nodes)


def method_calls_on(fn, recv_name, method, nodes=None):
    return calls_in(fn, lambda c: isinstance(c.func, ast.Attribute) and c.func.attr == method
                    and isinstance(c.func.value, ast.Name) and c.func.value.id == recv_name, nodes)


def floor(rule, what, got, need):
    if got < need:
        from verif_sa.core import note_floor
        note_floor("rule %s enumerated %d %s, floor confirmed by reading is %d "
                   "(anchor construct vanished or unrecognised shape)" % (rule, got, what, need))


def strip_not(test, pol):
    """Normalise a guard: remove leading ``not`` and flip polarity."""
    while isinstance(test, ast.UnaryOp) and isinstance(test.op, ast.Not):
        test = test.operand
        pol = not pol
    return test, pol


def norm_guards(fn, node, stop=None):
    return [strip_not(t, p) + (k,) for (t, p, k) in guards(fn, node, stop)]


def is_none_test(test, name):
    """Recognise ``name is None`` / ``name is not None``; returns 'is', 'isnot' or None."""
    if isinstance(test, ast.Compare) and len(test.ops) == 1 and isinstance(test.left, ast.Name) and test.left.id == name \
            and isinstance(test.comparators[0], ast.Constant) and test.comparators[0].value is None:
        if isinstance(test.ops[0], ast.Is):
            return "is"
        if isinstance(test.ops[0], ast.IsNot):
            return "isnot"
    return None


def stmts_in_order(fn):
    """All statements of the function (excluding nested defs' bodies) in source order."""
    out = [n for n in fn.own_nodes() if isinstance(n, ast.stmt)]
    out.sort(key=lambda n: (n.lineno, n.col_offset))
    return out


def enclosing_loops(fn, node):
    return [a for a in fn.ancestors(node) if isinstance(a, (ast.For, ast.While))]


def loop_paths(fn, loop, limit=4000):
    """Enumerate paths through one iteration of ``loop``'s body: from the body entry to the loop
    header (next iteration), or to any node outside the loop (break / return / raise).
    Nested loops are traversed with at most one iteration each.  Each path is a list of CFG nodes."""
    cfg = fn.cfg
    entry = None
    for s in cfg.succ[loop]:
        if "T" in cfg.labels.get((loop, s), ()):
            entry = s
    if entry is None:
        raise AnalysisError("loop at line %d has no body edge" % loop.lineno)
    inside = set()
    for n in ast.walk(loop):
        if isinstance(n, ast.stmt) and n is not loop:
            inside.add(n)
    paths = []

    def dfs(n, path, counts):
        if len(paths) > limit:
            raise AnalysisError("too many paths through loop at line %d" % loop.lineno)
        if n is loop or n not in inside:
            paths.append((path, n))
            return
        c = counts.get(n, 0)
        cap = 2 if isinstance(n, (ast.For, ast.While)) else 1
        if c >= cap:
            return
        counts = dict(counts)
        counts[n] = c + 1
        for s in cfg.succ[n]:
            if "X" in cfg.labels.get((n, s), ()) and len(cfg.labels[(n, s)]) == 1:
                continue  # implicit exception edges are not part of the normal iteration
            dfs(s, path + [n], counts)

    dfs(entry, [], {})
    return paths


def fn_paths(fn, limit=4000):
    """Acyclic-ish paths ENTRY -> EXIT/RAISE through a function (loops at most one iteration)."""
    cfg = fn.cfg
    paths = []

    def dfs(n, path, counts):
        if len(paths) > limit:
            raise AnalysisError("too many paths through %s" % fn.qualname)
        if n is cfg.EXIT or n is cfg.RAISE:
            paths.append((path, n))
            return
        c = counts.get(n, 0)
        cap = 2 if isinstance(n, (ast.For, ast.While)) else 1
        if c >= cap:
            return
        counts = dict(counts)
        counts[n] = c + 1
        for s in cfg.succ[n]:
            if "X" in cfg.labels.get((n, s), ()) and len(cfg.labels[(n, s)]) == 1:
                continue
            dfs(s, path + [n], counts)

    dfs(cfg.ENTRY, [], {})
    return paths


def exprs_of_node(n):
    """Expressions evaluated at CFG node n (header only for compound statements)."""
    from verif_sa.dataflow import header_exprs
    if isinstance(n, ast.stmt):
        return header_exprs(n)
    return []


def calls_at_node(n):
    out = []
    for e in exprs_of_node(n):
        for x in ast.walk(e):
            if isinstance(x, ast.Call):
                out.append(x)
    # assignment targets can hold calls too (rare); statement-level walk for simple statements
    return out


def const_value(e):
    if isinstance(e, ast.Constant):
        return e.value
    if isinstance(e, ast.UnaryOp) and isinstance(e.op, ast.USub) and isinstance(e.operand, ast.Constant):
        return -e.operand.value
    return None


def length_degree(fn, e, depth=0):
    """Physical 'length' dimension of an expression (0 = dimensionless, 1 = length, 2 = squared length), or None
    when it cannot be determined.  Used to check that a deviation and its tolerance are comparable."""
    if depth > 8:
        return None
    if isinstance(e, ast.Constant) and isinstance(e.value, (int, float)):
        return 0
    if isinstance(e, ast.Name):
        if e.id == "atol":
            return 1
        if fn.stmt_of(e) is not None:
            uv = fn.rd.unique_value(e)
            if uv is not None:
                return length_degree(fn, uv[1], depth + 1)
            ds = fn.rd.defs_of_use(e)
            # loop targets over position arrays
        if "position" in e.id or e.id in ("pos",):
            return 1
        return None
    if isinstance(e, ast.Attribute):
        if e.attr == "positions":
            return 1
        if e.attr == "T":
            return length_degree(fn, e.value, depth + 1)
        return None
    if isinstance(e, ast.Subscript):
        return length_degree(fn, e.value, depth + 1)
    if isinstance(e, ast.UnaryOp):
        return length_degree(fn, e.operand, depth + 1)
    if isinstance(e, ast.BinOp):
        l, r = length_degree(fn, e.left, depth + 1), length_degree(fn, e.right, depth + 1)
        if isinstance(e.op, ast.Pow):
            k = const_value(e.right)
            return None if l is None or k is None else l * k
        if isinstance(e.op, (ast.Add, ast.Sub)):
            if l is None or r is None:
                return None
            return l if l == r else (max(l, r) if 0 in (l, r) else None)
        if isinstance(e.op, ast.Mult):
            return None if l is None or r is None else l + r
        if isinstance(e.op, ast.Div):
            return None if l is None or r is None else l - r
        return None
    if isinstance(e, ast.Call):
        nm = call_name(e)
        if nm in ("sum", "max", "min", "mean", "abs", "absolute", "array", "asarray", "all", "any", "amax", "amin", "fabs"):
            if isinstance(e.func, ast.Attribute) and not (isinstance(e.func.value, ast.Name) and e.func.value.id in ("np", "numpy", "math")):
                return length_degree(fn, e.func.value, depth + 1)
            return length_degree(fn, e.args[0], depth + 1) if e.args else None
        if nm == "sqrt":
            d = length_degree(fn, e.args[0], depth + 1) if e.args else None
            return None if d is None else d / 2
        if nm == "norm":
            return length_degree(fn, e.args[0], depth + 1) if e.args else None
        if nm == "cdist":
            metric = const_value(e.args[2]) if len(e.args) > 2 else "euclidean"
            return 2 if metric == "sqeuclidean" else 1
        if nm == "apply" and e.args:
            return length_degree(fn, e.args[0], depth + 1)
        return None
    if isinstance(e, (ast.ListComp, ast.GeneratorExp)):
        return length_degree(fn, e.elt, depth + 1)
    return None


def _is_cellish(e):
    t = ast.unparse(e)
    return t.endswith(".cell") or t in ("cell", "uc_vectors") or t.endswith("cell_vectors")


def vec_mat_form(e, is_mat=_is_cellish):
    """For a product of a lattice matrix M (rows = lattice vectors) with multiplier vector(s) v, return which matrix
    is effectively applied in row-vector form v . X:  'M' (sum_k v_k * row_k, correct) or 'M.T' (wrong), else None."""
    a = b = None
    if isinstance(e, ast.Call) and call_name(e) in ("matmul", "dot") and len(e.args) == 2 and not kwargs_present(e):
        a, b = e.args
    elif isinstance(e, ast.Call) and isinstance(e.func, ast.Attribute) and e.func.attr == "dot" and len(e.args) == 1:
        a, b = e.func.value, e.args[0]
    elif isinstance(e, ast.BinOp) and isinstance(e.op, ast.MatMult):
        a, b = e.left, e.right
    if a is None:
        return None

    def mat(x):
        if isinstance(x, ast.Attribute) and x.attr == "T" and is_mat(x.value):
            return "T"
        if is_mat(x):
            return "M"
        return None
    ma, mb = mat(a), mat(b)
    if (ma is None) == (mb is None):
        return None
    if ma is not None:      # matrix on the left: M @ v == v . M.T
        return "M.T" if ma == "M" else "M"
    return "M" if mb == "M" else "M.T"


def kwargs_present(call):
    return any(k.arg in ("axes", "out") for k in call.keywords)


def linalg_chain(e, depth=0):
    """Normal form of a product of named matrices: list of (name, transposed, inverted), or None.
    Understands dot/matmul/@, .T, np.linalg.inv and np.linalg.solve(A, B) = inv(A) . B."""
    if depth > 6:
        return None
    if isinstance(e, ast.Attribute) and e.attr == "T":
        inner = linalg_chain(e.value, depth + 1)
        if inner is None:
            return None
        return [(n, not t, i) for (n, t, i) in reversed(inner)]
    if isinstance(e, ast.Call) and call_name(e) == "inv" and len(e.args) == 1:
        inner = linalg_chain(e.args[0], depth + 1)
        if inner is None:
            return None
        return [(n, t, not i) for (n, t, i) in reversed(inner)]
    if isinstance(e, ast.Call) and call_name(e) == "solve" and len(e.args) == 2:
        a, b = linalg_chain(e.args[0], depth + 1), linalg_chain(e.args[1], depth + 1)
        if a is None or b is None:
            return None
        return [(n, t, not i) for (n, t, i) in reversed(a)] + b
    a = b = None
    if isinstance(e, ast.Call) and call_name(e) in ("matmul", "dot") and len(e.args) == 2 and not (isinstance(e.func, ast.Attribute) and not isinstance(e.func.value, ast.Name)):
        a, b = e.args
    elif isinstance(e, ast.Call) and isinstance(e.func, ast.Attribute) and e.func.attr == "dot" and len(e.args) == 1:
        a, b = e.func.value, e.args[0]
    elif isinstance(e, ast.BinOp) and isinstance(e.op, ast.MatMult):
        a, b = e.left, e.right
    if a is not None:
        ca, cb = linalg_chain(a, depth + 1), linalg_chain(b, depth + 1)
        if ca is None or cb is None:
            return None
        return ca + cb
    if isinstance(e, (ast.Name, ast.Attribute)):
        return [(ast.unparse(e), False, False)]
    return None


def eq_const(t):
    """`expr == const` or `const == expr` (also !=): returns (expr, const value, is_eq) or None."""
    if isinstance(t, ast.Compare) and len(t.ops) == 1 and isinstance(t.ops[0], (ast.Eq, ast.NotEq)):
        l, r = t.left, t.comparators[0]
        if const_value(r) is not None and const_value(l) is None:
            return l, const_value(r), isinstance(t.ops[0], ast.Eq)
        if const_value(l) is not None and const_value(r) is None:
            return r, const_value(l), isinstance(t.ops[0], ast.Eq)
    return None


def implied_min_len(t, pol):
    """For a guard (test, polarity) of the form len(x) <op> k (either operand order): the smallest length of x that satisfies it, as (x expression, m)
    meaning `len(x) >= m`; None when the guard is not a lower bound on a length."""
    if not (isinstance(t, ast.Compare) and len(t.ops) == 1):
        return None
    l, r, op = t.left, t.comparators[0], type(t.ops[0])
    flip = {ast.Lt: ast.Gt, ast.LtE: ast.GtE, ast.Gt: ast.Lt, ast.GtE: ast.LtE, ast.Eq: ast.Eq, ast.NotEq: ast.NotEq}
    if not (isinstance(l, ast.Call) and call_name(l) == "len" and l.args) and isinstance(r, ast.Call) and call_name(r) == "len" and r.args and op in flip:
        l, r, op = r, l, flip[op]
    k = const_value(r)
    if not (isinstance(l, ast.Call) and call_name(l) == "len" and l.args) or not isinstance(k, int) or isinstance(k, bool):
        return None
    if not pol:
        op = {ast.Lt: ast.GtE, ast.LtE: ast.Gt, ast.Gt: ast.LtE, ast.GtE: ast.Lt, ast.Eq: ast.NotEq, ast.NotEq: ast.Eq}.get(op)
    if op is ast.Gt:
        return l.args[0], k + 1
    if op is ast.GtE:
        return l.args[0], k
    if op is ast.NotEq and k == 0:
        return l.args[0], 1
    if op is ast.Eq and k >= 0:
        return l.args[0], k
    return None


def guard_eq(fn, node, value, stop=None):
    """Is ``node`` guarded (positively) by an equality test of some expression against ``value``?"""
    for t, pol, k in norm_guards(fn, node, stop):
        e = eq_const(t)
        if e is not None and e[1] == value and e[2] == pol:
            return True
    return False


def fmt_slots(s):
    """Number of conversion slots in a %-format string (ignores %%)."""
    return len(re.findall(r"%(?!%)[-+ #0]*\d*(?:\.\d+)?[diouxXeEfFgGcrs]", s.replace("%%", "")))


class Undecidable(Exception):
    pass


class Vec(tuple):
    """A small numeric vector standing for a numpy array in eval_small: elementwise comparison and arithmetic with scalars / vectors of equal length, and the
    reductions min / max / any / all / sum / prod."""

    def _zip(self, other):
        if isinstance(other, Vec):
            if len(other) != len(self):
                raise Undecidable("vector lengths")
            return list(zip(self, other))
        if isinstance(other, (int, float, bool)):
            return [(x, other) for x in self]
        raise Undecidable("vector operand")

    def _map(self, other, f):
        return Vec(f(a, b) for a, b in self._zip(other))

    def __gt__(self, o):
        return self._map(o, lambda a, b: a > b)

    def __ge__(self, o):
        return self._map(o, lambda a, b: a >= b)

    def __lt__(self, o):
        return self._map(o, lambda a, b: a < b)

    def __le__(self, o):
        return self._map(o, lambda a, b: a <= b)

    def __eq__(self, o):
        return self._map(o, lambda a, b: a == b)

    def __ne__(self, o):
        return self._map(o, lambda a, b: a != b)

    __hash__ = tuple.__hash__

    def __sub__(self, o):
        return self._map(o, lambda a, b: a - b)

    def __add__(self, o):
        return self._map(o, lambda a, b: a + b)

    def __mul__(self, o):
        return self._map(o, lambda a, b: a * b)

    def __bool__(self):
        if len(self) == 1:
            return bool(self[0])
        raise Undecidable("truth value of a vector with more than one element is ambiguous")


class Mat(tuple):
    """A small matrix (tuple of Vec rows) standing for a 2-D numpy array in eval_small: np.isin, elementwise negation, row-wise / column-wise any / all."""

    def reduce(self, how, axis):
        f = all if how == "all" else any
        if axis in (1, -1):
            return Vec(f(r) for r in self)
        if axis == 0:
            return Vec(f(col) for col in zip(*self)) if self else Vec(())
        return f(f(r) for r in self)

    def negate(self):
        return Mat(Vec(not x for x in r) for r in self)


def eval_small(e, env):
    """Evaluate a side-effect-free expression of a small language (names bound in env, constants, set / tuple / list literals and constructors, set algebra and
    set methods, len / all / any / min / max / abs / sorted, arithmetic, comparisons incl. chains and membership, boolean operators, conditional expressions,
    constant subscripts, quantified generator expressions) on ABSTRACT REPRESENTATIVE values chosen by the calling rule.  Used to decide guards whose operands are
    touched only through comparisons / set algebra, over a finite set of representatives.  Anything else raises Undecidable."""
    if isinstance(e, ast.Name):
        if e.id in env:
            return env[e.id]
        if e.id in ("True", "False", "None"):
            return {"True": True, "False": False, "None": None}[e.id]
        raise Undecidable(e.id)
    if isinstance(e, ast.Constant):
        return e.value
    if isinstance(e, (ast.Set, ast.Tuple, ast.List)):
        vals = [eval_small(x, env) for x in e.elts]
        return frozenset(vals) if isinstance(e, ast.Set) else tuple(vals)
    if isinstance(e, (ast.ListComp, ast.GeneratorExp, ast.SetComp)):
        # comprehensions over evaluable iterables (several generators, filters): used for small index tables such as [(i, j) for i in range(3) for j in range(i + 1, 3)]
        out = []

        def gen(k, env_):
            if k == len(e.generators):
                out.append(eval_small(e.elt, env_))
                return
            g = e.generators[k]
            for item in eval_small(g.iter, env_):
                e2 = dict(env_)
                if isinstance(g.target, ast.Name):
                    e2[g.target.id] = item
                elif isinstance(g.target, (ast.Tuple, ast.List)) and all(isinstance(t, ast.Name) for t in g.target.elts) and isinstance(item, tuple) and len(item) == len(g.target.elts):
                    for t, v in zip(g.target.elts, item):
                        e2[t.id] = v
                else:
                    raise Undecidable("comprehension target")
                if all(eval_small(c, e2) for c in g.ifs):
                    gen(k + 1, e2)
                if len(out) > 500:
                    raise Undecidable("comprehension too large")
        gen(0, env)
        return frozenset(out) if isinstance(e, ast.SetComp) else tuple(out)
    if isinstance(e, ast.UnaryOp):
        v = eval_small(e.operand, env)
        if isinstance(e.op, ast.Invert) and isinstance(v, Mat):
            return v.negate()
        if isinstance(e.op, ast.Invert) and isinstance(v, Vec):
            return Vec(not x for x in v)
        if isinstance(e.op, ast.Not):
            return not v
        if isinstance(e.op, ast.USub):
            return -v
        if isinstance(e.op, ast.UAdd):
            return +v
        raise Undecidable("unary")
    if isinstance(e, ast.BoolOp):
        if isinstance(e.op, ast.And):
            v = True
            for x in e.values:
                v = eval_small(x, env)
                if not v:
                    return v
            return v
        v = False
        for x in e.values:
            v = eval_small(x, env)
            if v:
                return v
        return v
    if isinstance(e, ast.IfExp):
        return eval_small(e.body, env) if eval_small(e.test, env) else eval_small(e.orelse, env)
    if isinstance(e, ast.BinOp):
        a, b = eval_small(e.left, env), eval_small(e.right, env)
        if isinstance(a, Vec) or isinstance(b, Vec):
            va, vb = (a, b) if isinstance(a, Vec) else (b, a)
            if isinstance(e.op, ast.Add):
                return va + vb
            if isinstance(e.op, ast.Mult):
                return va * vb
            if isinstance(e.op, ast.Sub) and isinstance(a, Vec):
                return a - b
            raise Undecidable("vector operator")
        if isinstance(a, bool) and isinstance(b, bool) and isinstance(e.op, (ast.BitOr, ast.BitAnd, ast.BitXor)):
            return {ast.BitOr: a | b, ast.BitAnd: a & b, ast.BitXor: a ^ b}[type(e.op)]
        sets = isinstance(a, (set, frozenset)) and isinstance(b, (set, frozenset))
        nums = all(isinstance(x, (int, float)) and not isinstance(x, bool) for x in (a, b))
        try:
            if isinstance(e.op, ast.Sub) and (sets or nums):
                return a - b
            if isinstance(e.op, ast.BitAnd) and sets:
                return a & b
            if isinstance(e.op, ast.BitOr) and sets:
                return a | b
            if isinstance(e.op, ast.BitXor) and sets:
                return a ^ b
            if isinstance(e.op, ast.Add) and (nums or (isinstance(a, tuple) and isinstance(b, tuple))):
                return a + b
            if isinstance(e.op, ast.Mult) and nums:
                return a * b
            if isinstance(e.op, ast.Div) and nums and b != 0:
                return a / b
            if isinstance(e.op, ast.FloorDiv) and nums and b != 0:
                return a // b
            if isinstance(e.op, ast.Mod) and nums and b != 0:
                return a % b
        except Exception:
            raise Undecidable("arithmetic")
        raise Undecidable("operator")
    if isinstance(e, ast.Compare):
        left = eval_small(e.left, env)
        for op, c in zip(e.ops, e.comparators):
            right = eval_small(c, env)
            try:
                if isinstance(op, ast.In):
                    r = left in right
                elif isinstance(op, ast.NotIn):
                    r = left not in right
                elif isinstance(op, ast.Is):
                    r = left is right
                elif isinstance(op, ast.IsNot):
                    r = left is not right
                else:
                    r = {ast.Eq: lambda x, y: x == y, ast.NotEq: lambda x, y: x != y, ast.Lt: lambda x, y: x < y, ast.LtE: lambda x, y: x <= y,
                         ast.Gt: lambda x, y: x > y, ast.GtE: lambda x, y: x >= y}[type(op)](left, right)
            except (TypeError, KeyError):
                raise Undecidable("comparison")
            if isinstance(r, Vec):
                if len(e.ops) == 1:
                    return r
                raise Undecidable("chained comparison of vectors")
            if not r:
                return False
            left = right
        return True
    if isinstance(e, ast.Subscript):
        base = eval_small(e.value, env)
        try:
            if isinstance(e.slice, ast.Slice):
                parts = [None if x is None else eval_small(x, env) for x in (e.slice.lower, e.slice.upper, e.slice.step)]
                r = base[slice(*parts)]
                return Vec(r) if isinstance(base, Vec) else r
            return base[eval_small(e.slice, env)]
        except Undecidable:
            raise
        except Exception:
            raise Undecidable("subscript")
    if isinstance(e, ast.Call) and not e.keywords and isinstance(e.func, ast.Name) and e.func.id == "range" and 1 <= len(e.args) <= 3:
        try:
            return tuple(range(*[eval_small(x, env) for x in e.args]))
        except Undecidable:
            raise
        except Exception:
            raise Undecidable("range")
    if isinstance(e, ast.Call) and call_name(e) in ("isin", "in1d") and len(e.args) == 2 and all(k.arg in ("invert", "assume_unique") for k in e.keywords):
        a, b = eval_small(e.args[0], env), eval_small(e.args[1], env)
        inv = any(k.arg == "invert" and eval_small(k.value, env) for k in e.keywords)
        try:
            members = set(b)
        except TypeError:
            raise Undecidable("isin of an unhashable collection")
        if isinstance(a, Mat):
            return Mat(Vec((x in members) != inv for x in r) for r in a)
        if isinstance(a, (Vec, tuple)):
            return Vec((x in members) != inv for x in a)
        raise Undecidable("isin of a scalar")
    if isinstance(e, ast.Call) and call_name(e) in ("any", "all") and isinstance(e.func, ast.Attribute) and len(e.args) + len(e.keywords) == 1 and (
            (e.keywords and e.keywords[0].arg == "axis") or e.args):
        # row-wise / column-wise reductions: M.all(axis=1), np.any(M, axis=1)
        base_is_np = isinstance(e.func.value, ast.Name) and e.func.value.id in ("np", "numpy")
        if not base_is_np:
            m = eval_small(e.func.value, env)
            ax = eval_small(e.keywords[0].value if e.keywords else e.args[0], env)
            if isinstance(m, Mat):
                return m.reduce(call_name(e), ax)
    if isinstance(e, ast.Call) and call_name(e) in ("any", "all") and isinstance(e.func, ast.Attribute) and isinstance(e.func.value, ast.Name) and e.func.value.id in ("np", "numpy") \
            and len(e.args) == 1 and len(e.keywords) == 1 and e.keywords[0].arg == "axis":
        m = eval_small(e.args[0], env)
        if isinstance(m, Mat):
            return m.reduce(call_name(e), eval_small(e.keywords[0].value, env))
    if isinstance(e, ast.Call) and not e.keywords and call_name(e) in ("min", "max", "any", "all", "sum", "prod") and (
            (isinstance(e.func, ast.Attribute) and not e.args and not (isinstance(e.func.value, ast.Name) and e.func.value.id in ("np", "numpy")))
            or (isinstance(e.func, ast.Attribute) and isinstance(e.func.value, ast.Name) and e.func.value.id in ("np", "numpy") and len(e.args) == 1)):
        # reductions of a vector: v.min(), np.any(v > 1), ...
        v = eval_small(e.func.value if not e.args else e.args[0], env)
        if isinstance(v, Vec):
            f = call_name(e)
            if f == "prod":
                out = 1
                for x in v:
                    out *= x
                return out
            return {"min": min, "max": max, "any": any, "all": all, "sum": sum}[f](tuple(v))
        raise Undecidable("reduction of a non-vector")
    if isinstance(e, ast.Call) and call_name(e) in ("asarray", "array", "asanyarray") and len(e.args) == 1 and isinstance(e.func, ast.Attribute):
        return eval_small(e.args[0], env)
    if isinstance(e, ast.Call) and call_name(e) == "flatnonzero" and len(e.args) == 1 and not e.keywords:
        v = eval_small(e.args[0], env)
        if isinstance(v, (Vec, tuple)):
            return tuple(i for i, x in enumerate(v) if x)
        raise Undecidable("flatnonzero")
    if isinstance(e, ast.Call) and not e.keywords:
        f = call_name(e)
        if isinstance(e.func, ast.Name) and f in ("set", "frozenset", "tuple", "list", "len", "all", "any", "bool", "sorted", "min", "max", "abs", "sum", "str") and len(e.args) >= 1:
            a0 = e.args[0]
            if len(e.args) == 1 and isinstance(a0, (ast.GeneratorExp, ast.ListComp, ast.SetComp)) and len(a0.generators) == 1 and isinstance(a0.generators[0].target, ast.Name):
                g = a0.generators[0]
                vals = []
                for item in eval_small(g.iter, env):
                    e2 = dict(env)
                    e2[g.target.id] = item
                    if all(eval_small(c, e2) for c in g.ifs):
                        vals.append(eval_small(a0.elt, e2))
                args = [tuple(vals)]
            else:
                args = [eval_small(x, env) for x in e.args]
            try:
                if f in ("set", "frozenset"):
                    return frozenset(args[0])
                if f in ("tuple", "list"):
                    return tuple(args[0])
                if f == "str" and isinstance(args[0], str):
                    return args[0]
                if f == "sorted":
                    return tuple(sorted(args[0]))
                if f in ("min", "max") and len(args) > 1:
                    return (min if f == "min" else max)(args)
                return {"len": len, "all": all, "any": any, "bool": bool, "min": min, "max": max, "abs": abs, "sum": sum}[f](args[0])
            except Exception:
                raise Undecidable("call " + f)
        if isinstance(e.func, ast.Attribute) and f == "join" and len(e.args) == 1:
            recv = eval_small(e.func.value, env)
            items = eval_small(e.args[0], env)
            if isinstance(recv, str) and isinstance(items, (tuple, frozenset)) and all(isinstance(x, str) for x in items) and not isinstance(items, frozenset):
                return recv.join(items)
            raise Undecidable("join")
        if isinstance(e.func, ast.Attribute) and f == "replace" and len(e.args) == 2:
            recv = eval_small(e.func.value, env)
            a_, b_ = eval_small(e.args[0], env), eval_small(e.args[1], env)
            if isinstance(recv, str) and isinstance(a_, str) and isinstance(b_, str):
                return recv.replace(a_, b_)
            raise Undecidable("replace")
        if isinstance(e.func, ast.Attribute) and f in ("strip", "lstrip", "rstrip", "isspace", "lower", "upper", "startswith", "endswith", "split", "isalnum", "isalpha", "isdigit",
                                                       "casefold", "title", "capitalize", "swapcase") and len(e.args) <= 1:
            recv = eval_small(e.func.value, env)
            if not isinstance(recv, str):
                raise Undecidable("string method on a non-string")
            args = [eval_small(x, env) for x in e.args]
            try:
                r = getattr(recv, f)(*args)
            except Exception:
                raise Undecidable("string method")
            return tuple(r) if isinstance(r, list) else r
        if isinstance(e.func, ast.Attribute) and f in ("count", "index") and len(e.args) == 1:
            recv = eval_small(e.func.value, env)
            if isinstance(recv, (tuple, str)) and not isinstance(recv, Vec):
                try:
                    return getattr(recv, f)(eval_small(e.args[0], env))
                except Undecidable:
                    raise
                except Exception:
                    raise Undecidable("sequence method")
            raise Undecidable("count / index on a non-sequence")
        if isinstance(e.func, ast.Attribute) and f in ("issubset", "issuperset", "difference", "intersection", "isdisjoint", "union", "symmetric_difference") and len(e.args) == 1:
            recv = eval_small(e.func.value, env)
            if not isinstance(recv, (set, frozenset)):
                raise Undecidable("set method on a non-set")
            try:
                return getattr(frozenset(recv), f)(eval_small(e.args[0], env))
            except Exception:
                raise Undecidable("set method")
        raise Undecidable("call " + str(f))
    raise Undecidable(type(e).__name__)
